#!/bin/bash
# usage: confirm_mutant.sh <mutant-dir>   (contains patch.diff, one *_test.go demonstration, NOTES.md)
# Confirms in a scratch worktree of /repo's HEAD: patch applies, builds, 48 baseline tests pass with it,
# the demonstration passes without the patch and fails with it. Prints a one-line verdict.
export GOFLAGS=-mod=mod GOPROXY=off GOSUMDB=off
m=$(readlink -f "$1"); wt=/tmp/confwt-$$
git -C /repo worktree add -q --detach "$wt" HEAD || exit 2
demo=$(ls "$m"/*_test.go | head -1)
pkg=$(grep -m1 '^package' "$demo" | awk '{print $2}')
case "$pkg" in
  lisp|lisp_test) dest="$wt"; tdir="." ;;
  concurrent|concurrent_test) dest="$wt/lib/concurrent"; tdir="./lib/concurrent" ;;
  core|core_test) dest="$wt/lib/core"; tdir="./lib/core" ;;
  env|env_test) dest="$wt/env"; tdir="./env" ;;
  *) dest="$wt/$pkg"; tdir="./$pkg"; mkdir -p "$dest" ;;
esac
cp "$demo" "$dest/zz_mutant_demo_test.go"
names=$(grep -o '^func Test[A-Za-z0-9_]*' "$demo" | sed 's/func //' | paste -sd'|')
run() { (cd "$wt" && timeout 900 go test -vet=off -count=1 $1 -run "^($names)\$" $tdir > "$wt/../conf-$$.out" 2>&1); echo $?; }
clean=$(run ""); cleanrace=$(run "-race")
if ! git -C "$wt" apply "$m/patch.diff"; then echo "VERDICT $1: PATCH-DOES-NOT-APPLY"; git -C /repo worktree remove --force "$wt"; exit 1; fi
(cd "$wt" && go build ./... ) > /dev/null 2>&1; build=$?
mv "$dest/zz_mutant_demo_test.go" /tmp/zz-$$.go
"$(dirname "$(readlink -f "$0")")"/baseline_dir.sh "$wt" > /tmp/conf-base-$$.out 2>&1; base=$?
mv /tmp/zz-$$.go "$dest/zz_mutant_demo_test.go"
mut=$(run ""); mutrace=$(run "-race")
echo "VERDICT $1: build=$build baseline=$base demo(clean)=$clean demo(clean,-race)=$cleanrace demo(mutant)=$mut demo(mutant,-race)=$mutrace :: $(tail -1 /tmp/conf-base-$$.out)"
git -C /repo worktree remove --force "$wt"; rm -f /tmp/conf-$$.out /tmp/conf-base-$$.out
