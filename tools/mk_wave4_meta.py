import json,os,glob,re,sys
log=sys.argv[1] if len(sys.argv)>1 else None
clauses={}
if log:
    for l in open(log):
        m=re.match(r'(C\d\d-w\d-m\d) (\w+) (.*)',l)
        if m: clauses[m.group(1)]=(m.group(2),' '.join(sorted(set(x.replace('clause=','') for x in m.group(3).split()))))
first={ # detection on first pass, strengthening
'C02-w4-m1':('MISSED at first (no error object was ever turned into a hash-map)','operations that wrap a pool map in an error object and marshal it'),
'C02-w4-m2':('caught at once',None),
'C02-w4-m3':('MISSED at first (no closure made inside a function called from Go outlived that call)','closures made under apply/map/swap! that are kept in the pool and called later'),
'C03-w4-m1':('MISSED at first (every try form came from source text and carried a position)','try forms assembled by macros, several per program, with different clauses'),
'C03-w4-m2':('MISSED at first (finally bodies never failed)','finally bodies that throw or fail in a builtin after body/handler completed; the reference model keeps result and error'),
'C03-w4-m3':('MISSED at first (the catch symbol was never _)','catch symbol _ with handlers that read it or define something'),
'C07-w4-m1':('MISSED at first (time spent in a Go loop replaying a cached expansion cost no simulated time)','loop-head yields in mal.go, lib/core and types: every Go loop iteration is charged and counted against the bound'),
'C07-w4-m2':('MISSED at first (no program dereferenced a future it had cancelled)','programs that cancel a future and dereference it twice before looping on'),
'C07-w4-m3':('MISSED at first (string copying costs neither a step nor a loop iteration)','heap allocation between cancellation and return is charged in single-threaded runs; non-tail recursions thousands of frames deep'),
'C09-w4-m1':('caught at once (race oracle, linearizability)',None),
'C09-w4-m2':('caught at once',None),
'C09-w4-m3':('MISSED at first (memoize results were only compared with the unmemoized function)','history obligation: a memoized call invoked after an earlier call with the same argument returned must not compute again'),
'C10-w4-m1':('MISSED at first (no body waited inside a try; creator deadlines were rare)','bodies that wait on a gate or sleep inside a try whose handler returns; creator deadline in a quarter of the runs'),
'C10-w4-m2':('MISSED at first (a simulated task never attempts a held lock, so the TryRLock failure branch was unreachable)','contention mode: at a TryLock/TryRLock another task is parked holding the lock; rewriter defect fixed (yield before compound statements)'),
'C10-w4-m3':('MISSED at first (no future was created under an ended context)','creator naps past its deadline in a context-blind builtin, then calls future-call'),
'C11-w4-m1':('MISSED at first (no callback kept its rest list beyond the map call)','templates whose variadic callbacks hand their rest list to a future or a closure read later'),
'C11-w4-m2':('MISSED at first (memoized closures of different threads differed in text)','templates memoizing closures with the same text and thread-specific captured values'),
'C11-w4-m3':('caught at once (race oracle)',None),
'C18-w4-m1':('MISSED at first (stepper runs had no deadline)','every execution runs under a one-hour simulated deadline; the budget-timeout fault of C03 is injected under the stepper too'),
'C18-w4-m2':('MISSED at first (no evaluator panic crossed a callback builtin)','templates in which a malformed special form panics inside map/apply/reduce/swap! within a try'),
'C18-w4-m3':('MISSED at first (no program made thousands of tail calls under the stepper)','a tail loop of ~4000 iterations'),
}
rows=[]
for d in sorted(glob.glob('/verif/seeded/*-w4-m*')):
    id=os.path.basename(d)
    notes=open(d+'/NOTES.md').read()
    head=notes.splitlines()[0]
    what=re.split(r'—| - ',head,1)[-1].strip()
    m=re.search(r'## What is needed[^\n]*\n+(.*?)(?:\n## |\Z)',notes,re.S)
    needs=' '.join(m.group(1).split())[:400] if m else ''
    det,stren=first[id]
    v,cl=clauses.get(id,('?',''))
    meta={"id":id,"property":id[:3],"wave":4,"what_it_changes":what,"needs_to_manifest":needs,
     "confirmed":{"how":"tools/confirm_mutant.sh in a scratch worktree of /repo HEAD: patch applies, go build ok, 48 baseline tests pass with the patch, demonstration passes without and fails with the patch","result":"confirmed"},
     "demonstration":sorted(os.path.basename(x) for x in glob.glob(d+'/*_test.go')),
     "checked_with":"tools/try_mutant.sh seeded/%s/patch.diff quick %s (scratch worktree; /repo untouched)"%(id,id[:3]),
     "detection":det+('; caught after: '+stren if stren else ''),
     "clauses_reporting_it":cl}
    json.dump(meta,open(d+'/meta.json','w'),indent=1,ensure_ascii=False)
    rows.append("| %s | %s | %s | %s |"%(id,what.replace('|','/'),meta['detection'].replace('|','/'),cl))
open('/tmp/w4rows.md','w').write('\n'.join(rows)+'\n')
print(len(rows),sum(1 for r in clauses if '-w4-' in r))
