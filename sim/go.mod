module lispsim

go 1.26.8

require (
	github.com/anishathalye/porcupine v1.3.0
	github.com/fatih/color v1.13.0
	github.com/jig/lisp v0.0.0
)

require (
	github.com/chzyer/readline v1.5.1 // indirect
	github.com/davecgh/go-spew v1.1.1 // indirect
	github.com/eiannone/keyboard v0.0.0-20220611211555-0d226195f203 // indirect
	github.com/google/uuid v1.3.0 // indirect
	github.com/jig/scanner v1.2.0 // indirect
	github.com/mattn/go-colorable v0.1.13 // indirect
	github.com/mattn/go-isatty v0.0.16 // indirect
	golang.org/x/sys v0.0.0-20220825204002-c680a09ffe64 // indirect
)

replace github.com/jig/lisp => /repo
