//go:build race

package lispsim

import "runtime"

const raceBuild = true

// raceOff makes the race detector ignore synchronisation events of the current goroutine
// (memory accesses are still checked); raceOn undoes it. They bracket every scheduler
// hand-off so that the simulator adds no happens-before edge to the program under test.
func raceOff() { runtime.RaceDisable() }
func raceOn()  { runtime.RaceEnable() }

func raceErrors() int { return runtime.RaceErrors() }
