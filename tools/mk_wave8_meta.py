# Writes seeded/<id>/meta.json for the wave-8 changes and the two wave-7 changes caught since, and appends rows to RESULTS.md.
import json,os,glob,re
first={
'C02-w8-m1':('MISSED at first (no update function of swap! kept its argument list across a retry round)','operations whose variadic update function stores its argument list and invalidates the value it read on its first application(s)','C02.mutated / value-retained-inside-a-callback-changed'),
'C02-w8-m2':('caught at once',None,'C02.mutated / concurrent:a-bound-value-changed and others'),
'C03-w8-m1':('MISSED at first (every plan ran under a deadline of one hour)','knob of the run: the caller\'s deadline is 40, 120 or 250 years away (no budget-timeout faults in those runs, see DESIGN.md 11.3)','C03.effects, C03.result (8 clauses)'),
'C03-w8-m2':('caught at once',None,'C03.result / value-differs'),
'C07-w8-m1':('MISSED at first (the body of every handler probe was one form)','handler probes whose try body has several forms, the endless one first, in the middle or last','C07.catchable / handler-ran-0-times'),
'C07-w8-m2':('caught at once (a wait the simulator is not told about: reported as EVAL never returns)',None,'C07.prompt / never-returns:caller-at-blocked-in-an-operation-unknown-to-the-simulator'),
'C09-w8-m1':('MISSED at first (no update function started a future that swaps the same atom)','operation kind swap-starts-future-that-swaps','C09.spurious-error, C09.linearizability'),
'C09-w8-m2':('caught at once',None,'C09.hang'),
'C10-w8-m1':('caught at once',None,'C10.O1-body-once / body-never-ran, C10.O2-outcome / timeout-without-ended-context'),
'C10-w8-m2':('MISSED at first (no caller printed a future)','caller operations that print the future (pr-str, str, inside a vector) between derefs','C10.O3-hang / pending:deref'),
'C11-w8-m1':('MISSED at first (no shared value was an empty map or set; the shared memoized functions were made per program)','templates on a shared empty map, a shared empty set and a shared memoized function nobody has called yet','C11.race / lib/core.assoc <-> lib/core.contains_Q and others'),
'C11-w8-m2':('HARNESS TROUBLE (exit 2): the change adds a select whose two cases can both be ready (slot free and context ended); Go chooses at random, two executions of one tape differ and the self-test stops the check (DESIGN.md 10, as C10-w6-m1)',None,''),
'C18-w8-m1':('caught at once',None,'C18.callback-arguments / form-or-scope-mismatch'),
'C18-w8-m2':('caught at once',None,'C18.result / result-differs'),
}
rows=[]
for id,(det,stren,cl) in sorted(first.items()):
    d='/verif/seeded/'+id
    notes=open(d+'/NOTES.md').read()
    head=notes.splitlines()[0]
    what=re.split(r'—| - ',head,1)[-1].strip()
    m=re.search(r'## What is needed[^\n]*\n+(.*?)(?:\n## |\Z)',notes,re.S)
    needs=' '.join(m.group(1).split())[:400] if m else ''
    meta={"id":id,"property":id[:3],"wave":8,"what_it_changes":what,"needs_to_manifest":needs,
     "confirmed":{"how":"tools/confirm_mutant.sh in a scratch worktree of /repo HEAD: patch applies, go build ok, 48 baseline tests pass with the patch, demonstration passes without and fails with the patch (plain and -race)","result":"confirmed"},
     "demonstration":sorted(os.path.basename(x) for x in glob.glob(d+'/*_test.go')),
     "checked_with":"tools/try_mutant.sh seeded/%s/patch.diff quick %s (scratch worktree; /repo untouched)"%(id,id[:3]),
     "detection":det+('; caught after: '+stren if stren else ''),
     "clauses_reporting_it":cl}
    json.dump(meta,open(d+'/meta.json','w'),indent=1,ensure_ascii=False)
    rows.append("| %s | %s | %s | %s |"%(id,what.replace('|','/'),meta['detection'].replace('|','/'),cl))
for id,det,cl in [('C09-w7-m1','MISSED until wave 8 (needs one swap! to lose a thousand compare-and-set rounds in a row); caught after: the siege schedule of DESIGN.md 5.1','C09.spurious-error'),
                  ('C09-w7-m3','MISSED until wave 8 (needs a memoize table of more than 512 entries and an eviction between the two derefs of a concurrent lookup); since the flood of DESIGN.md 5.1 caught marginally (1-3 reports per undisturbed quick run)','C09.library / memoize')]:
    f='/verif/seeded/%s/meta.json'%id
    m=json.load(open(f)); m['detection']=det; m['clauses_reporting_it']=cl
    json.dump(m,open(f,'w'),indent=1,ensure_ascii=False)
r=open('/verif/seeded/RESULTS.md').read()
lines=r.split('\n')
out=[]
for l in lines:
    if l.startswith('| C09-w7-m1 '): 
        parts=l.split(' | '); parts[2]='MISSED until wave 8; caught since by the siege schedule (DESIGN.md 5.1)'; parts[3]='C09.spurious-error |'; l=' | '.join(parts[:4])
    if l.startswith('| C09-w7-m3 '):
        parts=l.split(' | '); parts[2]='MISSED until wave 8; caught since by the memoize flood (DESIGN.md 5.1)'; parts[3]='C09.library / memoize |'; l=' | '.join(parts[:4])
    out.append(l)
r='\n'.join(out)
marker='## Behaviour-preserving changes'
sec="## Wave 8 (14 changes, two per property)\n\n| id | change | detection | clauses |\n|---|---|---|---|\n"+'\n'.join(rows)+"\n\n"
if '## Wave 8' not in r:
    r=r.replace(marker,sec+marker,1)
open('/verif/seeded/RESULTS.md','w').write(r)
print(len(rows))
