#!/bin/bash
# usage: try_mutant.sh <patch.diff> <tier> <prop> [<prop>...]
# Applies the patch to a scratch worktree of /repo's HEAD (never to /repo), runs the given checks against
# it with scratch output directories, prints one verdict line per property, removes the worktree.
set -u
patch=$(readlink -f "$1"); tier=$2; shift 2
id=$$
wt=/tmp/mutwt-$id; sc=/tmp/mutsc-$id
git -C /repo worktree add -q --detach "$wt" HEAD || exit 2
if ! git -C "$wt" apply "$patch"; then echo "PATCH-DOES-NOT-APPLY $patch"; git -C /repo worktree remove --force "$wt"; exit 2; fi
mkdir -p "$sc"
for p in "$@"; do
  LISPSIM_REPO=$wt LISPSIM_BUILD=$sc/build LISPSIM_REPLAYS=$sc/replays LISPSIM_EVID=$sc/evid ${LISPSIM_ENV:-} "$(dirname "$0")/../check" "$p" "$tier" > "$sc/$p.out" 2>&1
  rc=$?
  echo "== $p $tier exit=$rc :: $(grep -c '^VIOLATION' "$sc/$p.out") violation line(s)"
  grep -A2 '^VIOLATION' "$sc/$p.out" | grep -v '^--' | cut -c1-260 | head -${MUT_LINES:-12}
  tail -1 "$sc/$p.out" | cut -c1-260
  if [ $rc -eq 2 ]; then grep -m1 -A12 "HARNESS-ERROR" "$sc/$p.out" | cut -c1-400; fi
done
git -C /repo worktree remove --force "$wt"
rm -rf "$sc"
