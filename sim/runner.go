package lispsim

import (
	"fmt"
	"strings"
	"testing"
	"testing/synctest"
	"time"

	"github.com/jig/lisp/simhook"
)

type Violation struct {
	Clause string `json:"clause"` // e.g. "C09.hang"
	Sig    string `json:"sig"`    // canonical shape of the failing history (known-finding key)
	Detail string `json:"detail"`
}

type RunOut struct {
	prop        string
	Violations  []Violation
	Discard     string // non-empty: the run is not judged (reason)
	Nontrivial  bool
	ILHash      uint64
	EvHash      uint64
	SimTime     time.Duration
	Steps       int64
	Decisions   int
	Switches    int
	Tasks       int
	Stats       map[string]int64
	Sample      interface{}
	Log         []string
	Races       int
	RaceText    string
	BubblePanic string
}

type RunOpt struct {
	Full bool   // keep the full event log and a rendering of the case
	Tier string // "quick" | "thorough"
}

type Property interface {
	ID() string
	// Run executes one simulated run decided entirely by the tape. It is called inside a synctest bubble.
	Run(tp *Tape, opt RunOpt) *RunOut
}

var properties = map[string]Property{}

func register(p Property) { properties[p.ID()] = p }

// collect copies the simulator's counters into the run result.
func (o *RunOut) collect(s *Sim) {
	o.ILHash = s.InterleavingHash()
	o.EvHash = s.EventHash()
	o.SimTime = s.Now()
	o.Steps = s.TotalSteps
	o.Decisions = s.Decisions
	o.Switches = s.Switches
	o.Tasks = len(s.tasks)
	if o.Stats == nil {
		o.Stats = map[string]int64{}
	}
	for i, k := range s.Points.Keys {
		o.Stats["point:"+k] += s.Points.Vals[i]
	}
	for i, k := range s.Preempted.Keys {
		o.Stats["preempt:"+k] += s.Preempted.Vals[i]
	}
	for i, k := range s.BlockWakes.Keys {
		o.Stats["wake:"+k] += s.BlockWakes.Vals[i]
	}
	if s.cfg.PCTDepth > 0 {
		o.Stats["policy:pct-depth-"+string(rune('0'+s.cfg.PCTDepth))]++
	} else if len(s.tasks) > 0 {
		o.Stats["policy:random-walk"]++
	}
	if s.Ambig > 0 {
		o.Stats["ambiguous_select"] += int64(s.Ambig)
		if o.Discard == "" {
			o.Discard = "ambiguous_select"
		}
	}
	for _, p := range s.Panics {
		o.Stats["task_panics"]++
		o.Violations = append(o.Violations, Violation{Clause: o.prop + ".panic", Sig: normPanic(p), Detail: "a goroutine evaluating lisp code panicked (this ends the embedding process): " + p})
	}
	if s.Leaked > 0 {
		o.Stats["leaked_tasks"] += int64(s.Leaked)
	}
	if s.Aborted != "" {
		o.Stats["aborted:"+s.Aborted]++
	}
	o.Log = s.Log
}

// runOne executes one run in a fresh bubble and attributes race reports to it.
func runOne(t *testing.T, p Property, tp *Tape, opt RunOpt) (out *RunOut) {
	before := raceErrors()
	off := raceLogOffset()
	// synctest.Test calls t.FailNow (Goexit) when the inner test was marked failed, which the testing
	// package does after any race report: run it on a goroutine of its own so that only that one ends
	done := make(chan struct{})
	go func() {
		defer close(done)
		defer func() {
			simhook.Install(nil)
			if r := recover(); r != nil {
				msg := fmt.Sprint(r)
				if strings.Contains(msg, "deadlock") && out != nil {
					// blocked goroutines were left behind by an aborted run (already reported as HANG)
					out.BubblePanic = msg
					return
				}
				panic(r)
			}
		}()
		synctest.Test(t, func(t *testing.T) {
			t0 := time.Now() // the bubble's fake clock
			func() {
				// the standard libraries (or a check's own definitions) fail to load into a fresh environment: on the
				// unchanged tree they never do; when they do, earlier runs of this process have left something behind
				// in the code under test. A violation like any other (it has to reproduce to count).
				defer func() {
					if r := recover(); r != nil {
						msg := fmt.Sprint(r)
						if strings.Contains(msg, " setup: ") || strings.Contains(msg, "library load failed") {
							out = &RunOut{prop: p.ID(), Stats: map[string]int64{}, Nontrivial: true,
								Violations: []Violation{{p.ID() + ".panic", "environment-set-up-fails", "a fresh environment could not be prepared: " + msg}}}
							return
						}
						panic(r)
					}
				}()
				out = p.Run(tp, opt)
			}()
			// properties that do not use the scheduler (C03, C18) still spend simulated time in budget-timeout faults
			if el := time.Since(t0); out != nil && el > out.SimTime {
				out.SimTime = el
			}
		})
	}()
	<-done
	if n := raceErrors() - before; n > 0 {
		out.Races = n
		out.RaceText = raceLogSince(off)
		cl, sig := classifyRace(out.RaceText)
		out.Violations = append(out.Violations, Violation{Clause: p.ID() + "." + cl, Sig: sig, Detail: out.RaceText})
	}
	return out
}

// normPanic strips addresses and numbers from a panic message so that it can serve as a signature.
func normPanic(p string) string {
	var b strings.Builder
	for _, r := range p {
		if r >= '0' && r <= '9' {
			continue
		}
		b.WriteRune(r)
	}
	s := b.String()
	if len(s) > 80 {
		s = s[:80]
	}
	return s
}
