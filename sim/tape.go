package lispsim

// The choice tape: every decision of a simulated run is a Draw on one of three lanes.
// Generative mode draws from splitmix64 (seeded from VERIF_SEED, property, run index) and
// records; replay mode reads recorded values (default 0 past the end / out of range).

type Lane int

const (
	LaneWork Lane = iota
	LaneSched
	LaneFault
	nLanes
)

var laneNames = [nLanes]string{"work", "sched", "fault"}

type Tape struct {
	Seed   uint64
	Replay bool
	rng    [nLanes]uint64
	Rec    [nLanes][]uint32
	src    [nLanes][]uint32
	pos    [nLanes]int
	// OutOfRange counts replayed values that did not fit the current draw (diagnostic).
	OutOfRange int
}

//go:norace
func splitmix(x *uint64) uint64 {
	*x += 0x9e3779b97f4a7c15
	z := *x
	z = (z ^ (z >> 30)) * 0xbf58476d1ce4e5b9
	z = (z ^ (z >> 27)) * 0x94d049bb133111eb
	return z ^ (z >> 31)
}

func mix64(a, b uint64) uint64 {
	x := a ^ (b+0x9e3779b97f4a7c15)*0xff51afd7ed558ccd
	return splitmix(&x)
}

func hashStr(s string) uint64 {
	h := uint64(1469598103934665603)
	for i := 0; i < len(s); i++ {
		h ^= uint64(s[i])
		h *= 1099511628211
	}
	return h
}

// NewTape returns a generative tape for (seed, property, run).
func NewTape(seed uint64, prop string, run uint64) *Tape {
	s := mix64(mix64(seed, hashStr(prop)), run)
	t := &Tape{Seed: s}
	for l := Lane(0); l < nLanes; l++ {
		t.rng[l] = mix64(s, uint64(l)+1)
	}
	return t
}

// ReplayTape returns a tape that replays the recorded lanes.
func ReplayTape(rec [nLanes][]uint32) *Tape {
	t := &Tape{Replay: true}
	for l := Lane(0); l < nLanes; l++ {
		t.src[l] = rec[l]
	}
	return t
}

// Draw returns a value in [0,n). n<=1 returns 0 without consuming anything.
//
//go:norace
func (t *Tape) Draw(l Lane, n int) int {
	if n <= 1 {
		return 0
	}
	var v uint32
	if t.Replay {
		if t.pos[l] < len(t.src[l]) {
			v = t.src[l][t.pos[l]]
			if int(v) >= n {
				t.OutOfRange++
				v = 0
			}
		}
		t.pos[l]++
	} else {
		v = uint32(splitmix(&t.rng[l]) % uint64(n))
	}
	t.Rec[l] = append(t.Rec[l], v)
	return int(v)
}

// Chance draws true with probability num/den; the replay default 0 is "false".
//
//go:norace
func (t *Tape) Chance(l Lane, num, den int) bool {
	if num <= 0 {
		return false
	}
	return t.Draw(l, den) >= den-num
}

// Pick draws an index with the given integer weights.
//
//go:norace
func (t *Tape) Weighted(l Lane, w []int) int {
	tot := 0
	for _, x := range w {
		tot += x
	}
	v := t.Draw(l, tot)
	// value 0 must map to index of the first non-zero weight: natural with cumulative sums
	for i, x := range w {
		if v < x {
			return i
		}
		v -= x
	}
	return len(w) - 1
}

func (t *Tape) Recorded() [nLanes][]uint32 {
	var r [nLanes][]uint32
	for l := Lane(0); l < nLanes; l++ {
		r[l] = append([]uint32(nil), t.Rec[l]...)
	}
	return r
}
