#!/bin/bash
# Run once after a fresh restore, offline: warms the Go build cache (std with and without -race for
# go1.26.8) by building both simulator binaries once. Nothing here depends on later edits of /repo:
# every ./check call rebuilds from /repo's working tree anyway.
set -e
cd "$(dirname "$0")/.."
export GOFLAGS=-mod=mod GOPROXY=off GOSUMDB=off GOTOOLCHAIN=local
./check build
