import json,os,glob,re,sys
log=sys.argv[1] if len(sys.argv)>1 else None
clauses={}
if log:
    for l in open(log):
        m=re.match(r'(C\d\d-w\d-m\d) (\w+) (.*)',l)
        if m: clauses[m.group(1)]=(m.group(2),' '.join(sorted(set(x.replace('clause=','') for x in m.group(3).split()))))
first={ # detection on first pass, strengthening
'C02-w4-m1':('MISSED at first (no error object was ever turned into a hash-map)','operations that wrap a pool map in an error object and marshal it'),
'C02-w4-m2':('caught at once',None),
'C02-w4-m3':('MISSED at first (no closure made inside a function called from Go outlived that call)','closures made under apply/map/swap! that are kept in the pool and called later'),
'C03-w4-m1':('MISSED at first (every try form came from source text and carried a position)','try forms assembled by macros, several per program, with different clauses'),
'C03-w4-m2':('MISSED at first (finally bodies never failed)','finally bodies that throw or fail in a builtin after body/handler completed; the reference model keeps result and error'),
'C03-w4-m3':('MISSED at first (the catch symbol was never _)','catch symbol _ with handlers that read it or define something'),
'C07-w4-m1':('MISSED at first (time spent in a Go loop replaying a cached expansion cost no simulated time)','loop-head yields in mal.go, lib/core and types: every Go loop iteration is charged and counted against the bound'),
'C07-w4-m2':('MISSED at first (no program dereferenced a future it had cancelled)','programs that cancel a future and dereference it twice before looping on'),
'C07-w4-m3':('MISSED at first (string copying costs neither a step nor a loop iteration)','heap allocation between cancellation and return is charged in single-threaded runs; non-tail recursions thousands of frames deep'),
'C09-w4-m1':('caught at once (race oracle, linearizability)',None),
'C09-w4-m2':('caught at once',None),
'C09-w4-m3':('MISSED at first (memoize results were only compared with the unmemoized function)','history obligation: a memoized call invoked after an earlier call with the same argument returned must not compute again'),
'C10-w4-m1':('MISSED at first (no body waited inside a try; creator deadlines were rare)','bodies that wait on a gate or sleep inside a try whose handler returns; creator deadline in a quarter of the runs'),
'C10-w4-m2':('MISSED at first (a simulated task never attempts a held lock, so the TryRLock failure branch was unreachable)','contention mode: at a TryLock/TryRLock another task is parked holding the lock; rewriter defect fixed (yield before compound statements)'),
'C10-w4-m3':('MISSED at first (no future was created under an ended context)','creator naps past its deadline in a context-blind builtin, then calls future-call'),
'C11-w4-m1':('MISSED at first (no callback kept its rest list beyond the map call)','templates whose variadic callbacks hand their rest list to a future or a closure read later'),
'C11-w4-m2':('MISSED at first (memoized closures of different threads differed in text)','templates memoizing closures with the same text and thread-specific captured values'),
'C11-w4-m3':('caught at once (race oracle)',None),
'C18-w4-m1':('MISSED at first (stepper runs had no deadline)','every execution runs under a one-hour simulated deadline; the budget-timeout fault of C03 is injected under the stepper too'),
'C18-w4-m2':('MISSED at first (no evaluator panic crossed a callback builtin)','templates in which a malformed special form panics inside map/apply/reduce/swap! within a try'),
'C18-w4-m3':('MISSED at first (no program made thousands of tail calls under the stepper)','a tail loop of ~4000 iterations'),
'C02-w5-m1':('MISSED at first (no pool value contained an empty map)','seed maps holding empty maps that are values of their own; assoc-in/update-in paths ending in them'),
'C02-w5-m2':('MISSED at first (no binary values in the pool)','binary values: unbase64 of payloads of decreasing length, base64 round trips; []byte in the canonical printer'),
'C02-w5-m3':('caught at once (race oracle)',None),
'C03-w5-m1':('MISSED at first (nothing was thrown inside an update function of swap!)','throws raised inside a swap! update function after the function has reset the atom'),
'C03-w5-m2':('MISSED at first (no Go builtin wrapped the error of a lisp callback)','harness builtin (visit f) that calls f through types.Apply and wraps its error in a Go error of its own; the reference model wraps the thrown object likewise'),
'C03-w5-m3':('MISSED at first (thrown vectors and maps held constants only)','thrown vectors, maps and nested collections containing symbols and code-looking lists, with metadata'),
'C07-w5-m1':('MISSED at first (no update function reached through a builtin read its atom)','loops that swap! through update / map with a callback reading the atom being swapped (C07 and C09)'),
'C07-w5-m2':('MISSED at first (handler probes had no try inside the body)','nested handler probes: a try inside another try body (literally, through a function, under let, inside map): the inner handler runs once, the outer one not at all'),
'C07-w5-m3':('MISSED at first (bodies never failed before the cancellation)','programs whose body fails at once with an ordinary error and whose handler is what the cancellation cuts short: the result must be the timeout error'),
'C09-w5-m1':('caught at once',None),
'C09-w5-m2':('caught at once',None),
'C09-w5-m3':('MISSED at first (no operation was ever cancelled)','fault: an operation runs under a context of its own that is cancelled at a drawn hook point inside it; an operation that ended with that timeout is placed by what others saw of its token'),
'C10-w5-m1':('caught at once (race oracle)',None),
'C10-w5-m2':('caught at once',None),
'C10-w5-m3':('caught at once',None),
'C11-w5-m1':('MISSED at first (no evaluation was cancelled while computing)','templates that cancel a future in the middle of a computation (race oracle)'),
'C11-w5-m2':('MISSED: out of reach (needs simultaneous evaluations whose nesting depths add up to 150000 frames; see DESIGN.md §10)',None),
'C11-w5-m3':('MISSED at first (no shared atom was printed)','shared atoms printed with str / pr-str by every program'),
'C18-w5-m1':('MISSED at first (every literal node was evaluated once)','functions containing map and vector literals called several times with different arguments'),
'C18-w5-m2':('MISSED at first (no init form read the outer binding of the name it shadows)','let forms whose init forms read the shadowed outer binding'),
'C18-w5-m3':('caught at once',None),
'C02-w6-m1':('caught at once',None),
'C02-w6-m2':('MISSED at first (no function carried a pool map as metadata)','functions defined with a pool map as metadata, two functions sharing one metadata map'),
'C02-w6-m3':('MISSED at first (json-decode was not among the operations)','json-decode with pool maps and vectors as prototype argument'),
'C03-w6-m1':('caught at once',None),
'C03-w6-m2':('caught at once',None),
'C03-w6-m3':('MISSED at first (nothing was thrown inside a callback of update-in)','throws inside callbacks of update, update-in (paths of 2 and 3), map, swap!, reduce'),
'C07-w6-m1':('HARNESS TROUBLE at first (the self-test treated a leak between runs of one process as a difference between process configurations); caught after the self-test sends every in-process difference to the one-process-per-run mode',None),
'C07-w6-m2':('MISSED at first (every handler probe sat at the start of the evaluation)','handler probes in tail position of do / let / a function body after a prefix that uses up 20-65% of the deadline'),
'C07-w6-m3':('MISSED at first (no program made status calls on a finished future twice)','loops preceded by repeated future-cancel / future-done? on finished and cancelled futures'),
'C09-w6-m1':('caught at once',None),
'C09-w6-m2':('caught at once (race oracle; printing became an operation of the history after the LispPrint defect)',None),
'C09-w6-m3':('HARNESS TROUBLE at first (behaviour depends on GOMAXPROCS: the self-test compared GOMAXPROCS=1 with 16); caught after GOMAXPROCS became a per-worker knob recorded in replay files',None),
'C10-w6-m1':('HARNESS TROUBLE, not caught: the change adds a select between a slot of a package-level semaphore and ctx.Done(); when both are ready Go chooses at random, the self-test reports the nondeterminism and the check ends with exit 2 (see DESIGN.md §10)',None),
'C10-w6-m2':('caught at once (race oracle)',None),
'C10-w6-m3':('caught at once',None),
'C11-w6-m1':('caught at once',None),
'C11-w6-m2':('MISSED at first (no self-tail-recursive loop created futures or closures per turn)','tail loops whose turns start futures / make closures that outlive the turn'),
'C11-w6-m3':('MISSED at first (every shared function had been called during set-up)','shared functions with macro calls in argument position that nobody has called before the concurrent programs do (race oracle)'),
'C18-w6-m1':('MISSED at first (no uncaught error came from the outermost form of a macro expansion)','macros whose expansion is the failing call, nothing catching the error'),
'C18-w6-m2':('MISSED at first (the evaluation as a whole was never cancelled)','fault host-cancel (a builtin cancels the whole evaluation) and try forms whose handler value is not a call'),
'C18-w6-m3':('caught at once',None),
'C02-w7-m1':('MISSED at first (no JSON document was a binary value)','binary values holding JSON text with comments, json-decode of pool binaries'),
'C02-w7-m2':('caught at once',None),
'C02-w7-m3':('MISSED at first (no error object wrapping a long sequence was rendered as text)','sequences of 10-12 elements in the pool; error-string / str of error objects that wrap pool sequences'),
'C03-w7-m1':('MISSED at first (nothing made in a handler outlived it)','a closure made inside a handler that reads the catch variable after the handler has returned and another handler has run'),
'C03-w7-m2':('caught at once',None),
'C03-w7-m3':('MISSED at first, then HARNESS TROUBLE (after the leak the standard libraries no longer load in that process); caught after a soak program (ten thousand failures caught by try forms in one evaluation), set-up failures counted as violations, and replay files written without in-process confirmation in the one-process-per-run mode',None),
'C07-w7-m1':('MISSED at first (a retry loop inside swap! cost no simulated time and no program kept it spinning)','retry rounds of swap! are charged like loop iterations; an atom that holds itself swapped through builtins that write it again'),
'C07-w7-m2':('caught at once',None),
'C07-w7-m3':('MISSED at first (no handler probe was evaluated by the body of a future)','handler probes inside futures'),
'C09-w7-m1':('MISSED: needs one swap! to lose a thousand compare-and-set rounds in a row; no scheduling policy of the simulator produces that (see DESIGN.md §10)',None),
'C09-w7-m2':('caught at once (printing is an operation of the history)',None),
'C09-w7-m3':('MISSED: needs a memoize table of more than 512 entries and an eviction between two derefs of one lookup (see DESIGN.md §10)',None),
'C10-w7-m1':('caught at once',None),
'C10-w7-m2':('caught at once',None),
'C10-w7-m3':('MISSED at first (no error outcome had passed through two derefs before)','bodies whose error has passed through two nested futures (race oracle)'),
'C11-w7-m1':('MISSED at first (nobody redefined a macro while others used it)','a thread that defines the shared macro again and again while programs use it'),
'C11-w7-m2':('MISSED at first (keywords made at run time were already known to the process after the solo runs)','keywords made from a per-call nonce with keyword and read-string (race oracle)'),
'C11-w7-m3':('MISSED at first (no macro expansion contained a closure over the macro function\'s parameter)','such a macro, used next to library macros'),
'C18-w7-m1':('MISSED at first (no program looked at the metadata of a function bound with def)','templates calling meta on def-ined functions'),
'C18-w7-m2':('MISSED at first (every macro was pure)','an impure macro expanded three times at one call site; macro names passed as data; a macro redefined between two calls of one function'),
'C18-w7-m3':('caught at once',None),
}
rows=[]
for d in sorted(glob.glob('/verif/seeded/*-w[4567]-m*')):
    id=os.path.basename(d)
    notes=open(d+'/NOTES.md').read()
    head=notes.splitlines()[0]
    what=re.split(r'—| - ',head,1)[-1].strip()
    m=re.search(r'## What is needed[^\n]*\n+(.*?)(?:\n## |\Z)',notes,re.S)
    needs=' '.join(m.group(1).split())[:400] if m else ''
    det,stren=first[id]
    if id not in clauses and os.path.exists(d+'/meta.json'):
        continue  # keep what an earlier regression recorded
    v,cl=clauses.get(id,('?',''))
    meta={"id":id,"property":id[:3],"wave":int(id[5]),"what_it_changes":what,"needs_to_manifest":needs,
     "confirmed":{"how":"tools/confirm_mutant.sh in a scratch worktree of /repo HEAD: patch applies, go build ok, 48 baseline tests pass with the patch, demonstration passes without and fails with the patch","result":"confirmed"},
     "demonstration":sorted(os.path.basename(x) for x in glob.glob(d+'/*_test.go')),
     "checked_with":"tools/try_mutant.sh seeded/%s/patch.diff quick %s (scratch worktree; /repo untouched)"%(id,id[:3]),
     "detection":det+('; caught after: '+stren if stren else ''),
     "clauses_reporting_it":cl}
    json.dump(meta,open(d+'/meta.json','w'),indent=1,ensure_ascii=False)
    rows.append("| %s | %s | %s | %s |"%(id,what.replace('|','/'),meta['detection'].replace('|','/'),cl))
open('/tmp/w4567rows.md','w').write('\n'.join(rows)+'\n')
print(len(rows),sum(1 for r in clauses if '-w4-' in r or '-w5-' in r or '-w6-' in r or '-w7-' in r))
