module autoyield

go 1.23
