package lispsim

// C07 — cancelling the context stops evaluation promptly.
//
// A generated non-terminating program (tail / non-tail / macro recursion, loops through library
// macros, callbacks inside builtins, sleeps, future derefs, try/catch/finally nests to depth 4 whose
// handlers and finally bodies loop or sleep again) is evaluated by one simulated caller thread on
// the fake clock, every evaluation step costing simulated time. The injected fault is the
// cancellation: a deadline at a drawn instant, a cancel() at a drawn step, cancellation of a parent
// context, or a context that has already ended at entry.
//
// Oracle: after T* (first instant the context is done) the calling thread executes at most
// B = 200 + 20*(AST nodes) further evaluation steps and EVAL returns within (B+10) step costs of
// simulated time; try-free programs return a timeout error; in deadline mode a timeout raised in a
// try body is caught and the handler runs once, before the deadline.

import (
	"context"
	"os"
	"runtime"
	"strconv"
	"strings"
	"time"

	"github.com/jig/lisp"
	"github.com/jig/lisp/simhook"
	"github.com/jig/lisp/types"
)

type c07 struct{}

func (c07) ID() string { return "C07" }

func init() { register(c07{}) }

const c07Setup = `(do
  (def lp (fn [n] (lp (+ n 1))))
  (def nt (fn [d] (if (= d 0) 0 (+ 1 (nt (- d 1))))))
  (def lp-nt (fn [n] (do (nt 30) (lp-nt (+ n 1)))))
  (def dive (fn [n] (+ 1 (dive (+ n 1)))))
  (defmacro mm (fn [] '(mm)))
  (def lp-cond (fn [n] (cond (< n 0) :never true (lp-cond (+ n 1)))))
  (def lp-and (fn [n] (and true (or false (lp-and (+ n 1))))))
  (def lp-thread (fn [n] (-> n (+ 1) (lp-thread))))
  (def lp-sleep (fn [n] (do (sleep 7) (lp-sleep (+ n 1)))))
  (def lp-swap (let [a (atom 0)] (fn [n] (do (swap! a (fn [v] (+ v 1))) (lp-swap (+ n 1))))))
  (def lp-swap-upd (let [st (atom {:n 0})] (fn [k] (do (swap! st update :n (fn [n] (+ n (count @st)))) (lp-swap-upd (+ k 1))))))
  (def lp-swap-apply (let [st (atom [1 2])] (fn [k] (do (swap! st (fn [v] (apply vector (map (fn [x] (+ x (count @st))) v)))) (lp-swap-apply (+ k 1))))))
  (def lp-n (fn [n] (if (> n 0) (lp-n (- n 1)) nil)))
  (def lp0 (fn [] (lp0)))
  (def lpx (fn [x] (lpx x)))
  (def pa (fn [x] (pb x)))
  (def pb (fn [x] (pa x)))
  (def lpd (fn [x] (do 1 x (lpd x))))
  (def lpl (fn [x] (let [y x] (lpl y))))
  (def lpi (fn [x] (if x (lpi x) (lpi x))))
  (def lp-def (fn [n] (do (def scratch n) (let [m (+ n 1)] (lp-def m)))))
  nil)`

// c07Prelude runs before the main program under a context of its own that never ends: a pending future
// and a second one whose body is already blocked dereferencing it when the main evaluation starts.
const c07Prelude = `(do (def shared-pending (future (gate! "never"))) (def shared-waiter (future @shared-pending)) nil)`

type c07Gen struct {
	tp     *Tape
	hasTry bool
	kinds  []string
}

var c07Leaves = []string{"(lp 0)", "(lp-nt 0)", "(mm)", "(lp-cond 0)", "(lp-and 0)", "(lp-thread 0)", "(lp-sleep 0)", "(sleep 10000000)", "(lp-swap 0)",
	"(apply lp (list 0))", `@(future (gate! "never"))`,
	"(lp0)", "(lpx 1)", "(pa 1)", "(lpd 1)", "(lpl 1)", "(lpi true)", "@shared-pending",
	// a future that keeps writing bindings while the caller resolves symbols
	"(do (def bg (future (lp-def 0))) (lp-nt 0))", "(let [bg (future (lp-def 0))] (lp-cond 0))",
	// a cancelled future is dereferenced (twice) before the program goes on
	"(let [f (future (lp-sleep 0))] (do (future-cancel f) (try @f (catch e nil)) (try @f (catch e nil)) (lp 0)))",
	"(let [f (future (lp 0))] (do (sleep 3) (future-cancel f) (try @f (catch e nil)) (lp-sleep 0)))",
	// an update function reached through a builtin reads the atom being swapped
	"(lp-swap-upd 0)", "(lp-swap-apply 0)",
	// status calls on a future that has finished, repeated, before the program goes on
	"(let [f (future 1)] (do @f (future-cancel f) (future-cancel f) (future-done? f) (future-cancelled? f) (lp 0)))",
	"(let [f (future (lp 0))] (do (future-cancel f) (future-cancel f) (try @f (catch e nil)) (future-cancel f) (future-done? f) (lp-sleep 0)))",
	// an atom that holds itself, swapped through builtins that write it again: every install attempt fails, for ever
	"(let [sa (atom 0)] (do (reset! sa sa) (swap! sa swap! reset! sa)))"}
var c07LeafNames = []string{"tail", "nontail", "macro", "cond", "and-or", "thread", "sleep-loop", "sleep", "swap-loop", "apply", "deref-ignoring-body",
	"tail-noargs", "tail-symbol-arg", "mutual-symbol-arg", "tail-do-atoms", "tail-let-symbol", "tail-if-symbol", "deref-shared-pending",
	"background-env-writer", "background-env-writer-let", "cancelled-future-deref", "cancelled-future-deref2", "swap-through-builtin-selfread", "swap-selfread-in-map", "status-calls-on-finished-future", "status-calls-on-cancelled-future", "swap-retrying-for-ever"}

// endless returns an expression that never terminates on its own.
func (g *c07Gen) endless(depth int, allowTry bool) string {
	n := 9
	if depth >= 4 {
		n = 0
	}
	w := []int{10, 1, 1, 1, 1, 1, 2, 1, 1, 1, 1, 1}
	if !allowTry || depth >= 4 {
		w[6] = 0
	}
	_ = n
	choice := 0
	if depth < 4 {
		choice = g.tp.Weighted(LaneWork, w)
	}
	switch choice {
	case 1:
		g.kinds = append(g.kinds, "map-callback")
		return "(map (fn [x] " + g.endless(depth+1, false) + ") [1 2 3])"
	case 2:
		g.kinds = append(g.kinds, "reduce-callback")
		return "(reduce (fn [a x] " + g.endless(depth+1, false) + ") 0 [1 2])"
	case 3:
		g.kinds = append(g.kinds, "swap-callback")
		return "(swap! (atom 0) (fn [v] " + g.endless(depth+1, false) + "))"
	case 4:
		g.kinds = append(g.kinds, "update-callback")
		return "(update {:a 1} :a (fn [v] " + g.endless(depth+1, false) + "))"
	case 5:
		g.kinds = append(g.kinds, "future-deref")
		return "@(future " + g.endless(depth+1, false) + ")"
	case 6:
		g.kinds = append(g.kinds, "try")
		return g.try(depth)
	case 7:
		g.kinds = append(g.kinds, "do-prefix")
		return "(do (nt 20) " + g.endless(depth+1, allowTry) + ")"
	case 8:
		g.kinds = append(g.kinds, "let")
		return "(let [a 1] " + g.endless(depth+1, allowTry) + ")"
	case 9:
		g.kinds = append(g.kinds, "if")
		return "(if true " + g.endless(depth+1, allowTry) + " 0)"
	case 11:
		// the value expression of a definition never finishes
		g.kinds = append(g.kinds, "definition-value")
		if g.tp.Chance(LaneWork, 1, 2) {
			return "(defmacro m-slow (do " + g.endless(depth+1, false) + " (fn [] 1)))"
		}
		return "(def v-slow (do " + g.endless(depth+1, false) + " 1))"
	case 10:
		// evaluation handed to the eval builtin: it must run under the caller's context
		g.kinds = append(g.kinds, "eval")
		return "(eval (quote " + g.endless(depth+1, false) + "))"
	}
	i := g.tp.Draw(LaneWork, len(c07Leaves))
	g.kinds = append(g.kinds, c07LeafNames[i])
	return c07Leaves[i]
}

// after returns a handler or finally body: loops again, sleeps again, starts a new try, rethrows or ends.
func (g *c07Gen) after(depth int, tag string) string {
	switch g.tp.Weighted(LaneWork, []int{3, 3, 2, 2, 1}) {
	case 0:
		return "(do (trace! " + tag + ") " + g.endless(depth+1, true) + ")"
	case 1:
		return "(do (trace! " + tag + ") " + strconv.Itoa(g.tp.Draw(LaneWork, 100)) + ")"
	case 2:
		return "(do (trace! " + tag + ") (sleep 10000000))"
	case 3:
		return g.endless(depth+1, true)
	}
	return "(do (trace! " + tag + ") (throw :again))"
}

func (g *c07Gen) try(depth int) string {
	g.hasTry = true
	body := g.endless(depth+1, true)
	tag := ":h" + strconv.Itoa(depth)
	switch g.tp.Draw(LaneWork, 3) {
	case 0:
		return "(try " + body + " (catch e " + g.after(depth, tag) + "))"
	case 1:
		return "(try " + body + " (finally " + g.after(depth, ":f"+strconv.Itoa(depth)) + "))"
	}
	return "(try " + body + " (catch e " + g.after(depth, tag) + ") (finally " + g.after(depth, ":f"+strconv.Itoa(depth)) + "))"
}

func countNodes(v types.MalType) int {
	switch x := v.(type) {
	case types.List:
		n := 1
		for _, e := range x.Val {
			n += countNodes(e)
		}
		return n
	case types.Vector:
		n := 1
		for _, e := range x.Val {
			n += countNodes(e)
		}
		return n
	case types.HashMap:
		n := 1
		for _, e := range x.Val {
			n += 1 + countNodes(e)
		}
		return n
	}
	return 1
}

type c07World struct {
	s        *Sim
	env      types.EnvType
	ctx      context.Context
	ast      types.MalType
	mode     string
	cancel   context.CancelFunc
	cancelAt int64 // step at which cancel() is called (step modes)
	caller   *Task
	prelude  bool
	tStar    time.Duration // first instant the context was seen done (-1: not yet)
	tStarSet bool
	after    int64 // steps of the calling thread after T*
	afterAll int64 // steps of all tasks after T*
	bound    int64
	fired    bool
	retTime  time.Duration
	// heap bytes allocated by the process (cumulative) at T* and at EVAL's return, and the steps taken before T*
	allocAtStar, allocAtRet uint64
	stepsAtStar             int64
}

// totalAlloc: cumulative heap bytes allocated by this process (exact: ReadMemStats flushes the per-P caches).
func totalAlloc() uint64 {
	var m runtime.MemStats
	runtime.ReadMemStats(&m)
	return m.TotalAlloc
}

// OnStep: fires the step-mode cancellation, notices T*, counts steps after it.
//
//go:norace
func (w *c07World) OnStep(s *Sim, t *Task, ctx context.Context, ast, env interface{}) {
	if w.cancelAt > 0 && !w.fired && s.TotalSteps >= w.cancelAt {
		w.fired = true
		w.cancel()
	}
	if w.ctx.Err() != nil {
		if !w.tStarSet {
			w.tStarSet = true
			w.tStar = s.Now()
			w.stepsAtStar = s.TotalSteps
			w.allocAtStar = totalAlloc()
		}
		w.afterAll++
		if t != w.caller && w.afterAll-w.after > 200*w.bound {
			// a future body that goes on and on after the cancellation: not judged (EVAL's return is what the
			// statement is about), but the run must end
			s.RequestAbort("body-overrun")
		}
		if t == w.caller {
			w.after++
			if w.after > w.bound+50 {
				s.RequestAbort("overrun")
			}
		}
	}
}

func (w *c07World) callerFn(t *Task) {
	if w.prelude {
		// an earlier evaluation under an unrelated context that never ends
		if _, err := lisp.EVAL(context.Background(), mustRead(c07Prelude), w.env); err != nil {
			panic("c07 prelude: " + err.Error())
		}
		// let the second future's body reach its deref before the main evaluation starts
		w.s.WaitUntil("prelude-settled", w.preludeSettled)
	}
	w.s.Rec("inv", "main", "", 0)
	res, err := lisp.EVAL(w.ctx, w.ast, w.env)
	recRet(w.s, "main", res, err, w.ctx.Err() != nil)
	w.noteReturn()
	// the run is over: let bodies that ignore cancellation finish
	w.s.OpenGate(`"never"`)
}

// preludeSettled: the waiter's body is blocked in its deref (evaluated by the scheduler while nobody runs).
//
//go:norace
func (w *c07World) preludeSettled() bool {
	for _, t := range w.s.tasks {
		if t.IsBody && t.state == tsBlocked {
			return true
		}
	}
	return false
}

//go:norace
func (w *c07World) noteReturn() {
	w.retTime = w.s.Now()
	if w.tStarSet {
		w.allocAtRet = totalAlloc()
	}
	if !w.tStarSet && w.ctx.Err() != nil {
		w.tStarSet = true
		w.tStar = w.retTime
	}
}

func (c07) Run(tp *Tape, opt RunOpt) *RunOut {
	out := &RunOut{prop: "C07", Stats: map[string]int64{}}
	g := &c07Gen{tp: tp}
	var src string
	handlerProbe := false
	finallyProbe := ""
	burst := false
	dive := false
	nestedProbe := false
	prefixProbe := false
	mustTimeout := false
	topW := []int{120, 40, 20, 20, 2, 3, 20, 20}
	if os.Getenv("LISPSIM_C07_BURST") != "" {
		topW = []int{0, 0, 0, 0, 1, 0, 0, 0} // development aid: only the burst shape
	}
	switch tp.Weighted(LaneWork, topW) {
	case 6:
		// a try reached from inside another try's body: the timeout raised in the inner body is caught by the
		// inner handler, which still gets to run; the outer handler has nothing to do
		handlerProbe = true
		nestedProbe = true
		g.hasTry = true
		g.kinds = append(g.kinds, "nested-handler-probe")
		inner := "(try " + g.endless(2, false) + " (catch e (do (trace! :probe-handler) " + strconv.Itoa(tp.Draw(LaneWork, 50)) + ")))"
		switch tp.Draw(LaneWork, 4) {
		case 0:
			src = "(try " + inner + " (catch e2 (do (trace! :outer-handler) 0)))"
		case 1:
			src = "(do (def inner-try (fn [] " + inner + ")) (try (inner-try) (catch e2 (do (trace! :outer-handler) 0))))"
		case 2:
			src = "(try (let [r " + inner + "] r) (catch e2 (do (trace! :outer-handler) 0)) (finally (trace! :outer-finally)))"
		case 3:
			src = "(try (first (map (fn [x] " + inner + ") [1])) (catch e2 (do (trace! :outer-handler) 0)))"
		}
	case 7:
		// the body fails at once with an ordinary error; it is the handler (or the finally body) that is cut short by
		// the cancellation: what EVAL returns is the timeout error
		mustTimeout = true
		g.hasTry = true
		g.kinds = append(g.kinds, "handler-cut-short")
		fail := []string{`(throw "disk full")`, "(nth [] 3)", "(throw {:code 7})", "(undefined-symbol-zz)"}[tp.Draw(LaneWork, 4)]
		switch tp.Draw(LaneWork, 4) {
		case 0:
			src = "(try " + fail + " (catch e " + g.endless(1, false) + "))"
		case 1:
			src = "(try " + fail + " (catch e " + g.endless(1, false) + ") (finally (trace! :fin)))"
		case 2:
			// (a finally body that is cut short is not in this list: by C03 its failure changes neither the result nor
			// the error of its form, so the body's own error is what comes back)
			src = "(try (do (trace! :before) " + fail + ") (catch e (do (trace! :handling) " + g.endless(2, false) + ")))"
		case 3:
			src = "(do (def handle (fn [e] " + g.endless(1, false) + ")) (try " + fail + " (catch e (handle e))))"
		}
	case 5:
		// a non-tail recursion that is thousands of frames deep when the context ends: the error has that many
		// frames to unwind through
		dive = true
		g.kinds = append(g.kinds, "deep-nontail-dive")
		src = []string{"(dive 0)", "(do (nt 20) (dive 0))", "(let [a 1] (+ a (dive 0)))", "(first (map (fn [x] (dive x)) [1]))"}[tp.Draw(LaneWork, 4)]
	case 4:
		// very many futures at once, each starting a future of its own after a short sleep
		burst = true
		g.kinds = append(g.kinds, "future-burst")
		src = "(do (def burst (map (fn [i] (future (do (sleep 3) @(future (lp 0))))) (range 0 " + strconv.Itoa(270+tp.Draw(LaneWork, 60)) + "))) (lp 0))"
	case 2:
		// a timeout raised inside a try body: handler and finally both still get to run, once
		handlerProbe = true
		finallyProbe = "with-catch"
		g.hasTry = true
		g.kinds = append(g.kinds, "finally-probe")
		src = "(try " + g.endless(1, false) + " (catch e (do (trace! :probe-handler) " + strconv.Itoa(tp.Draw(LaneWork, 50)) + ")) (finally (trace! :probe-finally)))"
	case 3:
		finallyProbe = "without-catch"
		g.hasTry = true
		g.kinds = append(g.kinds, "finally-probe")
		src = "(try " + g.endless(1, false) + " (finally (trace! :probe-finally)))"
	case 0:
		src = g.endless(0, true)
	case 1:
		// the shape of clause (iii): a timeout raised inside a try body is caught and the handler runs
		handlerProbe = true
		g.hasTry = true
		g.kinds = append(g.kinds, "handler-probe")
		{
			// the body of a try is a sequence of forms: the one that never ends is the only one, the first, the
			// middle or the last of them (all of them run under the body's share of the deadline)
			body := g.endless(1, false)
			switch tp.Draw(LaneWork, 5) {
			case 1:
				g.kinds = append(g.kinds, "handler-probe-multi-form-body")
				body = body + " :done"
			case 2:
				g.kinds = append(g.kinds, "handler-probe-multi-form-body")
				body = "(trace! :lead) " + body + " (trace! :not-reached) 7"
			case 3:
				g.kinds = append(g.kinds, "handler-probe-multi-form-body")
				body = "(trace! :lead) 1 " + body
			}
			src = "(try " + body + " (catch e (do (trace! :probe-handler) " + strconv.Itoa(tp.Draw(LaneWork, 50)) + ")))"
		}
		if tp.Chance(LaneWork, 1, 3) {
			// ... reached in tail position of the same evaluation after a prefix that uses up part of the deadline
			// (the marker 777777777 is replaced once the deadline is known)
			prefixProbe = true
			g.kinds = append(g.kinds, "handler-probe-after-prefix")
			src = []string{"(do (lp-n 777777777) " + src + ")", "(let [a (lp-n 777777777)] " + src + ")", "((fn [] (do (lp-n 777777777) " + src + ")))"}[tp.Draw(LaneWork, 3)]
		} else if tp.Chance(LaneWork, 1, 3) {
			// ... evaluated by the body of a future: the body's context carries the creator's deadline
			g.kinds = append(g.kinds, "handler-probe-in-future")
			src = []string{"@(future " + src + ")", "(let [f (future " + src + ")] (deref f))", "(first (map deref (list (future " + src + "))))"}[tp.Draw(LaneWork, 3)]
		}
	}
	ast := mustRead(src)
	nodes := countNodes(ast)
	bound := int64(200 + 20*nodes)
	delta := []time.Duration{time.Microsecond, 10 * time.Microsecond, 100 * time.Microsecond, time.Millisecond}[tp.Draw(LaneWork, 4)]
	cfg := SimCfg{
		Q:          []int{1, 2, 4, 16, 64}[tp.Draw(LaneWork, 5)],
		StepCost:   delta,
		StepJitter: []int{0, 3}[tp.Draw(LaneWork, 2)],
		StarveID:   -1,
		FullLog:    opt.Full,
		Horizon:    time.Hour,
		MaxSteps:   400000,
	}
	s := NewSim(tp, cfg)
	h := &Harness{S: s}
	e := NewEnv()
	h.Install(e)
	if _, err := lisp.EVAL(context.Background(), mustRead(c07Setup), e); err != nil {
		panic("c07 setup: " + err.Error())
	}
	w := &c07World{s: s, env: e, ast: ast, bound: bound}
	w.prelude = strings.Contains(src, "shared-pending")
	// ---- the fault: when and how the context ends ----
	modes := []string{"deadline", "cancel-at-step", "parent-cancel-at-step", "ended-at-entry", "deadline-parent"}
	w.mode = modes[tp.Weighted(LaneFault, []int{5, 4, 2, 1, 2})]
	// instants are drawn log-uniformly in steps: 2^0..2^14 steps, times a fraction
	steps := int64(1) << uint(tp.Draw(LaneFault, 15))
	steps += int64(tp.Draw(LaneFault, int(steps)))
	if burst && steps < 24000 {
		// all the futures must have been started before the context ends, or there is no burst
		steps = 24000 + steps%8000
	}
	if dive && steps < 12288 {
		steps = 12288 + steps%20000
	}
	if nestedProbe && steps < 2048 {
		steps += 2048
	}
	if prefixProbe {
		if steps < 2048 {
			steps += 2048
		}
		// the prefix takes roughly 45% of the deadline (about 11 evaluation steps per iteration)
		k := steps / 25
		if cfg.StepJitter > 1 {
			// a step then costs one to three times the base cost: the prefix takes 22%..66% of the deadline
			k = steps / 50
		}
		src = strings.Replace(src, "777777777", strconv.FormatInt(k, 10), 1)
		ast = mustRead(src)
		w.ast = ast
	}
	if handlerProbe || finallyProbe != "" {
		w.mode = "deadline"
		// the handler needs about six evaluation steps; it gets a fifth of the deadline and a step may
		// cost three times the base cost: leave it room, the clause is not about a race against the clock
		if steps < 512 {
			steps += 512
		}
	}
	base, baseCancel := context.WithCancel(context.Background())
	s.AddCancel(baseCancel)
	var deadline time.Duration
	switch w.mode {
	case "deadline":
		deadline = time.Duration(steps)*delta + 333*time.Nanosecond
		w.ctx, w.cancel = context.WithTimeout(base, deadline)
	case "deadline-parent":
		deadline = time.Duration(steps)*delta + 333*time.Nanosecond
		parent, pc := context.WithTimeout(base, deadline)
		s.AddCancel(pc)
		w.ctx, w.cancel = context.WithCancel(parent)
	case "cancel-at-step":
		w.ctx, w.cancel = context.WithCancel(base)
		w.cancelAt = steps
	case "parent-cancel-at-step":
		parent, pc := context.WithCancel(base)
		w.cancel = pc
		var cc context.CancelFunc
		w.ctx, cc = context.WithTimeout(parent, time.Hour*24)
		s.AddCancel(cc)
		w.cancelAt = steps
	case "ended-at-entry":
		w.ctx, w.cancel = context.WithCancel(base)
		w.cancel()
	}
	s.AddCancel(w.cancel)
	if w.cancelAt > 0 {
		// a program that blocks (sleep, deref) takes no further steps: the step-mode cancellation then
		// fires at the simulated instant by which that many steps would have been paid for
		backup := time.Duration(steps)*delta*4 + 777*time.Nanosecond
		tm := time.AfterFunc(backup, w.cancel)
		defer tm.Stop()
	}
	out.Stats["fault:"+w.mode]++
	s.OnStep = w
	simhook.Install(s)
	w.caller = s.Go("caller", w.callerFn)
	s.Run()
	simhook.Install(nil)
	out.collect(s)
	for _, k := range g.kinds {
		out.Stats["shape:"+k]++
	}

	viol := func(clause, sig, detail string) {
		out.Violations = append(out.Violations, Violation{"C07." + clause, sig, detail + "\n  program: " + src + "\n  cancellation: " + w.mode + " after ~" + strconv.FormatInt(steps, 10) + " steps, step cost " + delta.String() + ", bound B=" + strconv.FormatInt(bound, 10)})
	}
	shape := "try-free-program"
	if g.hasTry {
		shape = "program-with-try"
	}
	var ret *Ev
	traceH := 0
	traceF := 0
	traceOuter := 0
	var traceHTime []int64
	for i := range s.Events {
		ev := &s.Events[i]
		if ev.Kind == "ret" && ev.A == "main" {
			ret = ev
		}
		if ev.Kind == "trace" && ev.A == ":probe-handler" {
			traceH++
		}
		if ev.Kind == "trace" && ev.A == ":probe-finally" {
			traceF++
		}
		if ev.Kind == "trace" && ev.A == ":outer-handler" {
			traceOuter++
		}
	}
	_ = traceHTime
	switch {
	case s.Aborted == "body-overrun":
		out.Stats["probe:future-body-still-running-long-after-cancellation"]++
		out.Discard = "future-body-overrun"
	case s.Aborted == "overrun":
		viol("prompt", "steps-after-cancel:"+shape, "the calling thread executed more than "+strconv.FormatInt(w.after, 10)+" evaluation steps after its context had ended (T*="+w.tStar.String()+") and was still running")
	case s.Hang != nil:
		where := "running"
		for _, hw := range s.Hang.Waits {
			if hw.Task == w.caller.ID {
				where = hw.Point
			}
		}
		viol("prompt", "never-returns:caller-at-"+where+":"+shape, "EVAL never returned ("+s.Hang.Kind+"; context ended: "+strconv.FormatBool(w.ctx.Err() != nil)+"): "+strings.Join(s.Hang.Tasks, "; "))
	case s.Aborted != "":
		out.Discard = "aborted:" + s.Aborted
	case ret == nil:
		out.Discard = "no-return-event"
	case !w.tStarSet && finallyProbe == "without-catch":
		// the body's share of the deadline ran out; the finally body runs once in what is left, then the
		// timeout error goes on to the caller
		if traceF != 1 {
			viol("finally-after-timeout", "finally-ran-"+strconv.Itoa(traceF)+"-times", "the body of a try form timed out under a deadline with a fifth of it left: its finally body must run once; it ran "+strconv.Itoa(traceF)+" times; EVAL returned "+ret.B)
		}
		out.Stats["finally_probe_ok"]++
	case !w.tStarSet && handlerProbe:
		if finallyProbe != "" && traceF != 1 {
			viol("finally-after-timeout", "finally-ran-"+strconv.Itoa(traceF)+"-times", "the body of a try form timed out under a deadline and the handler caught it: the finally body must run once; it ran "+strconv.Itoa(traceF)+" times; EVAL returned "+ret.B)
		}
		if finallyProbe != "" {
			out.Stats["finally_probe_ok"]++
		}
		// the body's share of the deadline ran out, the handler caught the timeout and returned before
		// the deadline: exactly what clause (iii) asks for
		if traceH != 1 {
			viol("catchable", "handler-ran-"+strconv.Itoa(traceH)+"-times", "a timeout raised inside a try body under a deadline must be caught and its handler run once; it ran "+strconv.Itoa(traceH)+" times; EVAL returned "+ret.B)
		} else if ret.N&1 == 1 {
			viol("catchable", "handler-result-lost", "the handler ran but EVAL returned the error "+ret.B)
		}
		if nestedProbe && traceOuter != 0 {
			viol("catchable", "outer-handler-ran-instead", "the timeout raised in the body of the inner try form went past the inner handler: the outer handler ran "+strconv.Itoa(traceOuter)+" time(s), the inner one "+strconv.Itoa(traceH)+" time(s); EVAL returned "+ret.B)
		}
		out.Stats["handler_probe_ok"]++
	case !w.tStarSet:
		out.Discard = "terminated-before-cancellation"
	default:
		isErr := ret.N&1 == 1
		out.Stats["steps_after_cancel_caller"] += w.after
		out.Stats["steps_after_cancel_bodies"] += w.afterAll - w.after
		if w.after > bound {
			viol("prompt", "steps-after-cancel:"+shape, "the calling thread executed "+strconv.FormatInt(w.after, 10)+" evaluation steps after its context had ended")
		}
		lag := w.retTime - w.tStar
		maxCost := delta
		if cfg.StepJitter > 1 {
			maxCost = delta * time.Duration(cfg.StepJitter)
		}
		if lag > time.Duration(bound+10)*maxCost {
			viol("prompt", "time-after-cancel:"+shape, "EVAL returned "+lag.String()+" of simulated time after its context had ended (T*="+w.tStar.String()+")")
		}
		// work that costs no evaluation step (copying inside Go code) still shows as allocation: between T* and
		// EVAL's return a single-threaded run may allocate a fixed amount, plus an allowance per step taken after
		// T*, plus an allowance per step taken before it (the depth to unwind through is at most that) -- not
		// more, which is what an unwinding whose cost per frame grows with the depth does
		if len(s.tasks) == 1 && w.allocAtRet >= w.allocAtStar {
			used := int64(w.allocAtRet - w.allocAtStar)
			allow := int64(2<<20) + 2048*(w.after+1) + 256*w.stepsAtStar
			out.Stats["alloc_after_cancel_judged"]++
			if dive {
				out.Stats["probe:deep-dive-unwound-after-cancellation"]++
			}
			out.Stats["alloc_after_cancel_bytes"] += used
			if used > allow/8 {
				out.Stats["alloc_after_cancel_above_an_eighth_of_allowance"]++
			}
			if used > allow {
				viol("prompt", "allocation-after-cancel:"+shape, "between the end of its context and EVAL's return the calling thread (the only thread of the run) allocated "+strconv.FormatInt(used, 10)+" bytes; allowance "+strconv.FormatInt(allow, 10)+" (2 MiB + 2 KiB per step after T* + 256 B per step before it: "+strconv.FormatInt(w.stepsAtStar, 10)+" steps)")
			}
		}
		if !g.hasTry || mustTimeout {
			if !isErr {
				viol("timeout-error", "value-instead-of-timeout:"+shape, "a non-terminating program whose timeout no try form can catch returned the value "+ret.B+" after cancellation")
			} else if !strings.Contains(ret.B, "timeout") {
				viol("timeout-error", "other-error-instead-of-timeout:"+shape, "a non-terminating program whose timeout no try form can catch returned "+ret.B+" instead of a timeout error")
			}
		}
		if handlerProbe {
			if traceH != 1 {
				viol("catchable", "handler-ran-"+strconv.Itoa(traceH)+"-times", "a timeout raised inside a try body under a deadline must be caught and its handler run once; it ran "+strconv.Itoa(traceH)+" times; EVAL returned "+ret.B)
			}
			out.Stats["handler_probe_ok"]++
		}
	}
	out.Nontrivial = w.tStarSet && s.TotalSteps > 3
	out.ILHash = fnv(fnv(fnv(s.InterleavingHash(), src), w.mode), strconv.FormatInt(steps, 10))
	if opt.Full {
		out.Sample = map[string]interface{}{"program": src, "ast_nodes": nodes, "bound_B": bound, "cancellation": w.mode, "after_steps": steps, "step_cost": delta.String(),
			"deadline": deadline.String(), "steps_after_cancel": w.after, "t_star": w.tStar.String(), "returned_at": w.retTime.String()}
	}
	return out
}

func uniqSorted(xs []string) []string {
	m := map[string]bool{}
	for _, x := range xs {
		m[x] = true
	}
	var out []string
	for x := range m {
		out = append(out, x)
	}
	sortStrings(out)
	return out
}

func sortStrings(a []string) {
	for i := 1; i < len(a); i++ {
		for j := i; j > 0 && a[j] < a[j-1]; j-- {
			a[j], a[j-1] = a[j-1], a[j]
		}
	}
}
