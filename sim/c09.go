package lispsim

// C09 — atom operations are atomic, never lose updates and never hang.
//
// Workload: 1-3 atoms holding lists of unique integer tokens, 2-5 simulated caller threads each
// issuing 1-6 operations (some wrapped in a future). Every atom access — top level or nested
// inside an update function — is recorded as an operation with invoke/return stamps and checked
// per atom with porcupine against the sequential model. Hangs are decided by the scheduler.

import (
	"context"
	"sort"
	"strconv"
	"strings"
	"time"

	"github.com/anishathalye/porcupine"
	"github.com/jig/lisp"
	"github.com/jig/lisp/simhook"
	"github.com/jig/lisp/types"
)

type c09Op struct {
	ID     string // "o<thread>.<k>"
	Kind   string
	Atom   int
	Other  int
	Tok    int
	Tok2   int
	Spin   int
	Limit  int
	Future bool
	// Fuse > 0: the operation runs under a context of its own that is cancelled at the Fuse-th hook point
	// (evaluation step or yield) the thread passes after invoking it
	Fuse int
	Src  string
	ast  types.MalType
}

type c09Thread struct {
	ops []*c09Op
	ctx context.Context
}

type c09 struct{}

func (c09) ID() string { return "C09" }

func init() { register(c09{}) }

var c09Kinds = []string{"swap-cons", "deref", "reset", "swap-conj", "swap-wide", "swap-throw", "swap-typeerr",
	"swap-reads-other", "swap-derefs-self", "swap-updates-other", "swap-resets-other", "gensym", "memo",
	"deref-fn", "swap-extra-args", "swap-late-throw", "swap-derefs-self-wide", "swap-in-let", "reset-computed", "swap-bounded", "swap-extra-args3",
	"swap-vec", "swap-list", "swap-conj-wide", "swap-panic", "swap-panic-params", "vswap-assoc", "vswap-assoc-throw", "vswap-assoc-wide", "vderef",
	"vswap-update-selfread", "vswap-update-selfread-wide", "print", "swap-starts-future-that-swaps"}
var c09Weights = []int{5, 4, 3, 2, 3, 1, 1, 2, 1, 2, 1, 1, 3,
	2, 2, 1, 1, 1, 1, 3, 2,
	2, 1, 2, 1, 1, 2, 1, 1, 1,
	2, 1, 2, 2}

func atomName(i int) string { return "a" + strconv.Itoa(i) }

// vaBase: partition numbers of the vector-valued atoms va0..va2
const vaBase = 10

func (op *c09Op) build() {
	a := atomName(op.Atom)
	b := atomName(op.Other)
	k := strconv.Itoa(op.Tok)
	k2 := strconv.Itoa(op.Tok2)
	nid := func(kind, atom, arg string) string { return `"n` + k + ":" + kind + ":" + atom + ":" + arg + `"` }
	var src string
	switch op.Kind {
	case "deref":
		src = "@" + a
	case "reset":
		src = "(reset! " + a + " (list " + k + "))"
	case "swap-cons":
		src = "(swap! " + a + " (fn [v] (cons " + k + " v)))"
	case "swap-conj":
		src = "(swap! " + a + " conj " + k + ")"
	case "swap-wide":
		src = "(swap! " + a + " (fn [v] (do (spin " + strconv.Itoa(op.Spin) + ") (cons " + k + " v))))"
	case "swap-throw":
		src = "(swap! " + a + " (fn [v] (throw " + k + ")))"
	case "swap-typeerr":
		src = "(swap! " + a + " (fn [v] (+ v 1)))"
	case "swap-reads-other":
		id := nid("deref", b, "")
		src = "(swap! " + a + " (fn [v] (do (h-begin " + id + ") (h-end " + id + " @" + b + ") (cons " + k + " v))))"
	case "swap-derefs-self":
		id := nid("deref", a, "")
		src = "(swap! " + a + " (fn [v] (do (h-begin " + id + ") (h-end " + id + " @" + a + ") (cons " + k + " v))))"
	case "swap-updates-other":
		id := nid("swap-conj", b, k2)
		src = "(swap! " + a + " (fn [v] (do (h-begin " + id + ") (h-end " + id + " (swap! " + b + " conj " + k2 + ")) (cons " + k + " v))))"
	case "swap-resets-other":
		id := nid("reset", b, k2)
		src = "(swap! " + a + " (fn [v] (do (h-begin " + id + ") (h-end " + id + " (reset! " + b + " (list " + k2 + "))) (cons " + k + " v))))"
	case "deref-fn":
		src = "(deref " + a + ")"
	case "swap-extra-args":
		src = "(swap! " + a + " (fn [v x y] (cons (+ x y) v)) " + k + " 0)"
	case "swap-late-throw":
		// fails after having done real work on the value it read
		src = "(swap! " + a + " (fn [v] (do (spin " + strconv.Itoa(op.Spin) + ") (count v) (throw " + k + "))))"
	case "swap-derefs-self-wide":
		id := nid("deref", a, "")
		src = "(swap! " + a + " (fn [v] (do (spin " + strconv.Itoa(op.Spin) + ") (h-begin " + id + ") (h-end " + id + " @" + a + ") (spin 2) (cons " + k + " v))))"
	case "swap-in-let":
		src = "(let [f (fn [v] (cons " + k + " v)) r (swap! " + a + " f)] r)"
	case "reset-computed":
		src = "(reset! " + a + " (cons " + k + " ()))"
	case "swap-bounded":
		// succeeds or fails depending on the value it is applied to: (count v) > limit throws
		src = "(swap! " + a + " (fn [v] (do (spin " + strconv.Itoa(op.Spin%7) + ") (if (> (count v) " + strconv.Itoa(op.Limit) + ") (throw " + k + ") (cons " + k + " v)))))"
	case "swap-extra-args3":
		// three distinct extra arguments, all of which must reach the function on every application
		src = "(swap! " + a + " (fn [v x y z] (cons x (if (= (list y z) (list :y" + k + " \"z" + k + "\")) v (cons :wrong-args v)))) " + k + " :y" + k + " \"z" + k + "\")"
	case "swap-vec":
		// same elements, other collection type: equal under =, different for what follows
		src = "(swap! " + a + " vec)"
	case "swap-list":
		src = "(swap! " + a + " (fn [v] (apply list v)))"
	case "swap-conj-wide":
		src = "(swap! " + a + " (fn [v] (do (spin " + strconv.Itoa(op.Spin) + ") (conj v " + k + "))))"
	case "swap-panic":
		// the update function fails with a Go panic raised by a raw builtin (eval without argument)
		src = "(swap! " + a + " (fn [v] (do (count v) (eval))))"
	case "swap-panic-params":
		// ... or by a malformed parameter list met at call time
		src = "(swap! " + a + " (fn [v] ((fn [x &] x) " + k + ")))"
	case "vswap-assoc":
		src = "(swap! va" + strconv.Itoa(op.Atom) + " assoc " + strconv.Itoa(op.Tok%3) + " " + k + ")"
	case "vswap-assoc-wide":
		src = "(swap! va" + strconv.Itoa(op.Atom) + " (fn [v] (do (spin " + strconv.Itoa(op.Spin) + ") (assoc v " + strconv.Itoa(op.Tok%3) + " " + k + "))))"
	case "vswap-assoc-throw":
		// builds its candidate with assoc, then fails: the atom's vector must be untouched
		src = "(swap! va" + strconv.Itoa(op.Atom) + " (fn [v] (do (assoc v " + strconv.Itoa(op.Tok%3) + " " + k + ") (throw " + k + "))))"
	case "vswap-update-selfread":
		// the update function is a builtin (update) whose callback reads the atom being swapped
		va := "va" + strconv.Itoa(op.Atom)
		id := nid("deref", va, "")
		src = "(swap! " + va + " update " + strconv.Itoa(op.Tok%3) + " (fn [x] (do (h-begin " + id + ") (h-end " + id + " @" + va + ") " + k + ")))"
	case "vswap-update-selfread-wide":
		va := "va" + strconv.Itoa(op.Atom)
		id := nid("deref", va, "")
		src = "(swap! " + va + " update " + strconv.Itoa(op.Tok%3) + " (fn [x] (do (spin " + strconv.Itoa(op.Spin%9) + ") (h-begin " + id + ") (h-end " + id + " (deref " + va + ")) (spin 2) " + k + ")))"
	case "vderef":
		src = "@va" + strconv.Itoa(op.Atom)
	case "print":
		// printing an atom is a read of it
		src = "(str " + a + ")"
	case "gensym":
		src = "(gensym)"
	case "swap-starts-future-that-swaps":
		// the update function starts a future that later updates the same atom from a thread of its own (an
		// ordinary concurrent operation, not the excluded update function updating its own atom); the
		// operation waits for the future of the last application and fails if that future's swap! failed
		id := nid("swap-conj", a, k2)
		src = "(let [fs (atom nil) r (swap! " + a + " (fn [v] (do (reset! fs (future (do (spin " + strconv.Itoa(op.Spin%9) + ") (h-begin " + id + ") (h-end " + id + " (swap! " + a + " conj " + k2 + "))))) (cons " + k + " v))))] (do (deref (deref fs)) r))"
	case "memo":
		src = "(memo-f " + strconv.Itoa(op.Tok%7) + ")"
	case "memo-big":
		src = "(memo-f " + k + ")"
	}
	if op.Future {
		src = "@(future " + src + ")"
	}
	op.Src = src
	op.ast = mustRead(src)
}

// ---- sequential model for porcupine ----

type atomIn struct {
	Kind  string // deref | reset | swap-cons | swap-fail | swap-bounded
	Tok   string
	Limit int
	// AnyOut: the operation took effect but what it returned is not constrained (it ended with the timeout error of
	// its own cancelled context after its value had been installed)
	AnyOut bool
}

// listLen counts the elements of a canonical flat sequence.
func listLen(l string) int { return len(seqElems(l)) }

// seqElems returns the elements of a canonical flat sequence "(a b)" / "[a b]".
func seqElems(s string) []string {
	if len(s) < 2 {
		return nil
	}
	in := strings.TrimSpace(s[1 : len(s)-1])
	if in == "" {
		return nil
	}
	return strings.Split(in, " ")
}

func mkList(e []string) string { return "(" + strings.Join(e, " ") + ")" }
func mkVec(e []string) string  { return "[" + strings.Join(e, " ") + "]" }

// consCanon: cons always yields a list, whatever the sequence type.
func consCanon(tok, seq string) string {
	return mkList(append([]string{tok}, seqElems(seq)...))
}

// conjCanon: conj prepends to a list and appends to a vector.
func conjCanon(tok, seq string) string {
	if strings.HasPrefix(seq, "[") {
		return mkVec(append(append([]string{}, seqElems(seq)...), tok))
	}
	return consCanon(tok, seq)
}

var atomModel = porcupine.Model{
	Init: func() interface{} { return "()" },
	Step: func(state, input, output interface{}) (bool, interface{}) {
		ok, v := atomStep(state.(string), input.(atomIn), output.(string))
		return ok, v
	},
	Equal: func(a, b interface{}) bool { return a.(string) == b.(string) },
	DescribeOperation: func(input, output interface{}) string {
		in := input.(atomIn)
		return in.Kind + "(" + in.Tok + ") -> " + output.(string)
	},
}

func atomStep(st string, in atomIn, out string) (bool, string) {
	if in.AnyOut {
		in.AnyOut = false
		_, v := atomStep(st, in, out)
		return true, v
	}
	{
		switch in.Kind {
		case "deref":
			return out == st, st
		case "reset":
			v := "(" + in.Tok + ")"
			return out == v, v
		case "swap-cons":
			v := consCanon(in.Tok, st)
			return out == v, v
		case "swap-fail":
			return true, st
		case "swap-vec-init":
			return true, "[0 0 0]"
		case "swap-conj":
			v := conjCanon(in.Tok, st)
			return out == v, v
		case "swap-vec":
			v := mkVec(seqElems(st))
			return out == v, v
		case "swap-list":
			v := mkList(seqElems(st))
			return out == v, v
		case "vassoc":
			e := seqElems(st)
			if in.Limit < len(e) {
				e = append([]string{}, e...)
				e[in.Limit] = in.Tok
			}
			v := mkVec(e)
			return out == v, v
		case "swap-bounded":
			if listLen(st) > in.Limit {
				return out == "#thrown<"+in.Tok+">", st
			}
			v := consCanon(in.Tok, st)
			return out == v, v
		}
		return false, st
	}
}

type c09World struct {
	s         *Sim
	env       types.EnvType
	threads   []*c09Thread
	finalizer *Task
	finals    []*c09Op
	finalCtx  context.Context
	siege     bool
}

func (w *c09World) taskFn(idx int) func(*Task) {
	return func(t *Task) {
		th := w.threads[idx]
		for _, op := range th.ops {
			w.s.Rec("inv", op.ID, "", 0)
			ctx := th.ctx
			var cancel context.CancelFunc
			if op.Fuse > 0 {
				ctx, cancel = context.WithCancel(th.ctx)
				t.SetFuse(op.Fuse, cancel)
			}
			res, err := lisp.EVAL(ctx, op.ast, w.env)
			if cancel != nil {
				if t.SetFuse(0, nil) {
					w.s.Rec("fuse-fired", op.ID, "", 0)
				}
				cancel()
			}
			if err != nil {
				w.s.Rec("ret", op.ID, canonErrQuiet(err), 1)
			} else {
				w.s.Rec("ret", op.ID, canonValQuiet(res), 0)
			}
			if w.siege && idx == 1 {
				w.s.SiegeOpDone(t)
			}
		}
	}
}

// othersDone: every task except the finalizer has ended (evaluated by the scheduler while nobody runs).
//
//go:norace
func (w *c09World) othersDone() bool {
	for _, t := range w.s.tasks {
		if t != w.finalizer && t.state != tsDone {
			return false
		}
	}
	return true
}

// finalFn reads every atom once more after all operations have returned - as one more simulated caller,
// so that an atom left locked by a failed update shows up as a hang and not as a stalled harness.
func (w *c09World) finalFn(t *Task) {
	w.s.WaitUntil("all-operations-returned", w.othersDone)
	for _, op := range w.finals {
		w.s.Rec("inv", op.ID, "", 0)
		res, err := lisp.EVAL(w.finalCtx, op.ast, w.env)
		if err != nil {
			w.s.Rec("ret", op.ID, canonErrQuiet(err), 1)
		} else {
			w.s.Rec("ret", op.ID, canonValQuiet(res), 0)
		}
	}
}

//go:norace
func canonValQuiet(v types.MalType) string {
	raceOff()
	r := canon(v)
	raceOn()
	return r
}

//go:norace
func canonErrQuiet(err error) string {
	raceOff()
	r := canonErr(err)
	raceOn()
	return r
}

func (c09) Run(tp *Tape, opt RunOpt) *RunOut {
	out := &RunOut{prop: "C09", Stats: map[string]int64{}}
	// ---- generate ----
	// siege (1 run in 120): one swap! against a thread that installs a new value inside every one of its
	// read-apply-install windows, hundreds to thousands of times in a row; the swap! must still apply its
	// function to the latest value and return it once the other thread is done (no update lost, no error,
	// however many rounds it lost)
	siege := tp.Chance(LaneWork, 1, 120)
	siegeN := 0
	siegePoint := ""
	if siege {
		siegeN = []int{40, 150, 600, 1050, 1300, 2100}[tp.Draw(LaneWork, 6)]
		siegePoint = []string{"atom.swap.read", "atom.swap.applied"}[tp.Draw(LaneWork, 2)]
	}
	// flood (1 run in 100): one thread calls the memoized function with hundreds of distinct arguments while
	// the others keep asking for a handful of arguments that are (or are about to be) in its table: whatever the
	// table does when it is large, every call returns f's value for its own argument
	flood := !siege && tp.Chance(LaneWork, 1, 100)
	floodN := 0
	if flood {
		floodN = []int{100, 300, 520, 600, 700}[tp.Draw(LaneWork, 5)]
	}
	nAtoms := 1 + tp.Draw(LaneWork, 3)
	nThreads := 2 + tp.Draw(LaneWork, 4)
	if siege {
		nAtoms, nThreads = 1, 2
	}
	if flood {
		nAtoms, nThreads = 1, 2+tp.Draw(LaneWork, 2)
	}
	cfg := SimCfg{
		Q:          []int{1, 2, 3, 4, 6, 8, 16}[tp.Draw(LaneWork, 7)],
		WindowBias: []int{0, 2, 3, 5, 10}[tp.Draw(LaneWork, 5)],
		StarveID:   -1,
		FullLog:    opt.Full,
		Horizon:    time.Hour,
	}
	if siege {
		cfg.Q, cfg.WindowBias = 1, 0
		cfg.MaxDecisions = 4*siegeN + 1000
	} else if flood {
		cfg.MaxDecisions = 400000
	} else if tp.Chance(LaneWork, 1, 5) {
		cfg.StarveID = tp.Draw(LaneWork, nThreads+2)
		cfg.StarveFrom = tp.Draw(LaneWork, 20)
		cfg.StarveLen = 5 + tp.Draw(LaneWork, 60)
	}
	if !siege && !flood && tp.Chance(LaneWork, 1, 4) {
		// PCT policy instead of the random walk: priorities with 0-2 change points
		cfg.PCTDepth = 1 + tp.Draw(LaneWork, 3)
		cfg.PCTSpan = []int{30, 120, 600}[tp.Draw(LaneWork, 3)]
	}
	s := NewSim(tp, cfg)
	e := NewEnv()
	h := &Harness{S: s}
	h.Install(e)
	w := &c09World{s: s, env: e}
	setup := "(do (def spin (fn [n] (if (> n 0) (spin (- n 1)) nil))) (def memo-f (memoize (fn [x] (do (trace! (list :memo x)) (* x 2)))))"
	for i := 0; i < nAtoms; i++ {
		setup += " (def " + atomName(i) + " (atom ()))"
		setup += " (def va" + strconv.Itoa(i) + " (atom [0 0 0]))"
	}
	setup += " nil)"
	if _, err := lisp.EVAL(context.Background(), mustRead(setup), e); err != nil {
		panic("c09 setup: " + err.Error())
	}
	tok := 100
	ops := map[string]*c09Op{}
	var rendering []string
	for ti := 0; ti < nThreads; ti++ {
		ctx, cancel := context.WithCancel(context.Background())
		s.AddCancel(cancel)
		th := &c09Thread{ctx: ctx}
		n := 1 + tp.Draw(LaneWork, 6)
		if siege {
			n = []int{1 + tp.Draw(LaneWork, 2), siegeN}[ti]
		}
		if flood {
			n = floodN
			if ti > 0 {
				n = floodN/2 + tp.Draw(LaneWork, floodN)
			}
		}
		for k := 0; k < n; k++ {
			op := &c09Op{ID: "o" + strconv.Itoa(ti) + "." + strconv.Itoa(k)}
			op.Kind = c09Kinds[tp.Weighted(LaneWork, c09Weights)]
			if siege {
				// the victim (thread 0) swaps, the adversary (thread 1) installs values of its own
				if ti == 0 {
					op.Kind = []string{"swap-cons", "swap-wide", "swap-conj", "swap-extra-args", "swap-derefs-self", "swap-in-let"}[tp.Draw(LaneWork, 6)]
				} else {
					op.Kind = "reset"
				}
			}
			if flood {
				op.Kind = "memo"
				if ti == 0 {
					op.Kind = "memo-big"
				}
			}
			op.Atom = tp.Draw(LaneWork, nAtoms)
			op.Other = op.Atom
			if nAtoms > 1 {
				op.Other = (op.Atom + 1 + tp.Draw(LaneWork, nAtoms-1)) % nAtoms
			} else if op.Kind == "swap-reads-other" || op.Kind == "swap-updates-other" || op.Kind == "swap-resets-other" {
				op.Kind = "swap-cons"
			}
			tok++
			op.Tok = tok
			tok++
			op.Tok2 = tok
			op.Spin = 3 + tp.Draw(LaneWork, 40)
			op.Limit = tp.Draw(LaneWork, 5)
			op.Future = tp.Chance(LaneWork, 1, 6)
			if siege || flood {
				op.Future = false
			}
			if !siege && !flood && !op.Future && tp.Chance(LaneFault, 1, 8) {
				switch op.Kind {
				case "swap-cons", "swap-conj", "swap-wide", "swap-conj-wide", "reset", "deref", "vswap-assoc", "vswap-assoc-wide", "swap-in-let", "swap-extra-args":
					// the fault: this operation's context is cancelled somewhere inside it
					op.Fuse = 1 + tp.Draw(LaneFault, []int{4, 12, 40, 120}[tp.Draw(LaneFault, 4)])
				}
			}
			op.build()
			ops[op.ID] = op
			th.ops = append(th.ops, op)
			if flood && k >= 3 {
				if k == 3 {
					rendering = append(rendering, "thread "+strconv.Itoa(ti)+": ... "+strconv.Itoa(n)+" such calls")
				}
			} else if siege && ti == 1 && k >= 3 {
				if k == 3 {
					rendering = append(rendering, "thread 1: ... "+strconv.Itoa(siegeN)+" such operations, one inside every "+siegePoint+" window of thread 0")
				}
			} else if op.Fuse > 0 {
				rendering = append(rendering, "thread "+strconv.Itoa(ti)+": "+op.Src+"   ; context cancelled at hook point "+strconv.Itoa(op.Fuse))
			} else {
				rendering = append(rendering, "thread "+strconv.Itoa(ti)+": "+op.Src)
			}
		}
		w.threads = append(w.threads, th)
	}
	// ---- run ----
	simhook.Install(s)
	w.siege = siege
	var thTasks []*Task
	for ti := range w.threads {
		thTasks = append(thTasks, s.Go("thread"+strconv.Itoa(ti), w.taskFn(ti)))
	}
	if siege {
		s.SetSiege(thTasks[0], thTasks[1], siegePoint)
		out.Stats["programs:siege"]++
	}
	for ai := 0; ai < nAtoms; ai++ {
		op := &c09Op{ID: "final." + strconv.Itoa(ai), Kind: "deref", Atom: ai, Src: "@" + atomName(ai)}
		op.ast = mustRead(op.Src)
		ops[op.ID] = op
		w.finals = append(w.finals, op)
		vop := &c09Op{ID: "vfinal." + strconv.Itoa(ai), Kind: "vderef", Atom: ai, Src: "@va" + strconv.Itoa(ai)}
		vop.ast = mustRead(vop.Src)
		ops[vop.ID] = vop
		w.finals = append(w.finals, vop)
	}
	fctx, fcancel := context.WithCancel(context.Background())
	s.AddCancel(fcancel)
	w.finalCtx = fctx
	w.finalizer = s.Go("finalizer", w.finalFn)
	s.Run()
	simhook.Install(nil)
	out.collect(s)
	if flood {
		out.Stats["programs:memoize-flood"]++
		if floodN > 512 {
			out.Stats["reach:memoize-table-above-512-entries"]++
		}
	}
	if siege {
		out.Stats["siege:rounds-lost-by-one-swap"] += s.SiegeRounds
		if s.SiegeRounds >= 1000 {
			out.Stats["reach:swap-lost-1000-rounds-in-a-row"]++
		}
	}

	// ---- oracles ----
	type opRec struct {
		atom     int
		in       atomIn
		call     uint64
		ret      uint64
		out      string
		done     bool
		label    string
		topKind  string
		isErr    bool
		tok      string
		timedOut bool // ended with the timeout error of its own cancelled context
		taskName string
	}
	var recs []*opRec
	openTop := map[string]*opRec{}      // op id -> record
	openNested := map[string][]*opRec{} // task|id -> stack
	topOfTask := map[int]string{}       // task id -> top-level op kind being executed (for hang signatures)
	taskCurOp := map[int]*c09Op{}
	var gensyms []string
	memoBad := ""
	for _, ev := range s.Events {
		switch ev.Kind {
		case "inv":
			op := ops[ev.A]
			taskCurOp[ev.Task] = op
			topOfTask[ev.Task] = op.Kind
			r := &opRec{atom: op.Atom, call: ev.Seq, label: op.ID + " " + op.Src, topKind: op.Kind}
			switch op.Kind {
			case "deref", "deref-fn", "print":
				r.in = atomIn{Kind: "deref"}
			case "reset", "reset-computed":
				r.in = atomIn{Kind: "reset", Tok: strconv.Itoa(op.Tok)}
			case "swap-bounded":
				r.in = atomIn{Kind: "swap-bounded", Tok: strconv.Itoa(op.Tok), Limit: op.Limit}
			case "swap-throw", "swap-typeerr", "swap-late-throw", "swap-panic", "swap-panic-params":
				r.in = atomIn{Kind: "swap-fail", Tok: strconv.Itoa(op.Tok)}
			case "swap-conj", "swap-conj-wide":
				r.in = atomIn{Kind: "swap-conj", Tok: strconv.Itoa(op.Tok)}
			case "swap-vec":
				r.in = atomIn{Kind: "swap-vec"}
			case "swap-list":
				r.in = atomIn{Kind: "swap-list"}
			case "vswap-assoc", "vswap-assoc-wide", "vswap-update-selfread", "vswap-update-selfread-wide":
				r.atom = vaBase + op.Atom
				r.in = atomIn{Kind: "vassoc", Tok: strconv.Itoa(op.Tok), Limit: op.Tok % 3}
			case "vswap-assoc-throw":
				r.atom = vaBase + op.Atom
				r.in = atomIn{Kind: "swap-fail", Tok: strconv.Itoa(op.Tok)}
			case "vderef":
				r.atom = vaBase + op.Atom
				r.in = atomIn{Kind: "deref"}
			case "gensym", "memo", "memo-big":
				r.atom = -1
			default:
				r.in = atomIn{Kind: "swap-cons", Tok: strconv.Itoa(op.Tok)}
			}
			openTop[ev.A] = r
			recs = append(recs, r)
		case "ret":
			r := openTop[ev.A]
			op := ops[ev.A]
			r.ret = ev.Seq
			r.out = ev.B
			if op.Kind == "print" && strings.HasPrefix(ev.B, "\"«atom ") && strings.HasSuffix(ev.B, "»\"") {
				r.out = strings.TrimSuffix(strings.TrimPrefix(ev.B, "\"«atom "), "»\"")
			}
			r.done = true
			r.isErr = ev.N == 1
			delete(topOfTask, ev.Task)
			switch op.Kind {
			case "gensym":
				if r.isErr {
					out.Violations = append(out.Violations, Violation{"C09.library", "gensym-error", "gensym failed: " + ev.B})
				}
				gensyms = append(gensyms, ev.B)
			case "memo":
				want := strconv.Itoa((op.Tok % 7) * 2)
				if ev.B != want {
					memoBad = op.Src + " returned " + ev.B + ", want " + want
				}
			case "memo-big":
				want := strconv.Itoa(op.Tok * 2)
				if ev.B != want {
					memoBad = op.Src + " returned " + ev.B + ", want " + want
				}
			case "swap-panic", "swap-panic-params":
				if !r.isErr {
					out.Violations = append(out.Violations, Violation{"C09.failed-update", "swap-panic", op.Src + " returned " + ev.B + " although its update function failed with a Go panic"})
				}
			case "swap-throw", "swap-late-throw", "vswap-assoc-throw":
				if !r.isErr || ev.B != "#thrown<"+strconv.Itoa(op.Tok)+">" {
					out.Violations = append(out.Violations, Violation{"C09.failed-update", "swap-throw", op.Src + " returned " + ev.B + " instead of the thrown value"})
				}
			case "swap-typeerr":
				if !r.isErr {
					out.Violations = append(out.Violations, Violation{"C09.failed-update", "swap-typeerr", op.Src + " returned " + ev.B + " instead of an error"})
				}
			default:
				if r.isErr && op.Fuse > 0 && isTimeoutText(ev.B) {
					// cancelled by the injected fault: whether it took effect is decided below from what others saw
					r.timedOut = true
					r.tok = strconv.Itoa(op.Tok)
					out.Stats["fault:operation-context-cancelled"]++
				} else if r.isErr && op.Kind != "swap-bounded" && op.Kind != "vswap-assoc-throw" {
					// an operation whose update function cannot fail returned an error
					out.Violations = append(out.Violations, Violation{"C09.spurious-error", op.Kind, op.Src + " failed: " + ev.B})
					r.in = atomIn{Kind: "swap-fail"}
				}
			}
		case "begin", "end":
			// id is printed as a lisp string: "n<K>:<kind>:<atom>:<arg>"
			id := strings.Trim(ev.A, `"`)
			parts := strings.Split(id, ":")
			if len(parts) != 4 {
				continue
			}
			key := strconv.Itoa(ev.Task) + "|" + id
			if ev.Kind == "begin" {
				ai, _ := strconv.Atoi(parts[2][1:])
				if strings.HasPrefix(parts[2], "va") {
					ai, _ = strconv.Atoi(parts[2][2:])
					ai += vaBase
				}
				r := &opRec{atom: ai, call: ev.Seq, label: "nested " + id, in: atomIn{Kind: parts[1], Tok: parts[3]}}
				openNested[key] = append(openNested[key], r)
				recs = append(recs, r)
			} else {
				st := openNested[key]
				if len(st) == 0 {
					continue
				}
				r := st[len(st)-1]
				openNested[key] = st[:len(st)-1]
				r.ret = ev.Seq
				r.out = ev.B
				r.done = true
			}
		}
	}
	_ = taskCurOp
	// an operation that ended with the timeout error of its own cancelled context either took effect or did not
	// (both are atomic outcomes; which one is not always visible in what others returned): the history is checked
	// under every assignment, see below. A deref that timed out is a no-op.
	for _, r := range recs {
		if r.timedOut && r.in.Kind == "deref" {
			r.timedOut = false
			r.in = atomIn{Kind: "swap-fail"}
		}
	}

	if s.Hang != nil {
		// which operations were in flight: top-level kinds of unfinished ops, sorted
		// signature: the wait-for cycle. A task that waits inside its update function holds the lock of
		// the atom it is swapping; a waiting task waits for the atom in its HangWait.
		atomIdx := map[interface{}]int{}
		for ai := 0; ai < nAtoms; ai++ {
			if v, err := e.Get(types.Symbol{Val: atomName(ai)}); err == nil {
				atomIdx[v] = ai
			}
		}
		holds := map[int]int{} // task -> atom whose lock it holds
		for key, st := range openNested {
			if len(st) == 0 {
				continue
			}
			tid, _ := strconv.Atoi(key[:strings.Index(key, "|")])
			id := key[strings.Index(key, "|")+1:]
			tokN, _ := strconv.Atoi(strings.Split(id, ":")[0][1:])
			for _, op := range ops {
				if op.Tok == tokN {
					holds[tid] = op.Atom
				}
			}
		}
		waitsFor := map[int]int{} // task -> atom it waits for
		for _, hw := range s.Hang.Waits {
			if ai, ok := atomIdx[hw.Obj]; ok && strings.HasPrefix(hw.Point, "atom.") {
				waitsFor[hw.Task] = ai
			}
		}
		holderOf := map[int]int{}
		for tid, ai := range holds {
			holderOf[ai] = tid
		}
		cycle := ""
		var htasks []int
		for tid := range holds {
			htasks = append(htasks, tid)
		}
		sort.Ints(htasks)
		for _, start := range htasks {
			cur := start
			for n := 0; n <= len(holds); n++ {
				ai, ok := waitsFor[cur]
				if !ok {
					break
				}
				nxt, ok := holderOf[ai]
				if !ok {
					break
				}
				cur = nxt
				if cur == start {
					if n == 0 {
						cycle = "update-function-derefs-the-atom-being-swapped"
					} else if cycle == "" {
						cycle = "lock-order-cycle-between-update-functions-touching-other-atoms"
					}
					break
				}
			}
			if cycle == "update-function-derefs-the-atom-being-swapped" {
				break
			}
		}
		if cycle == "" {
			// no cycle among update functions: name the places where the tasks wait
			pset := map[string]bool{}
			for _, hw := range s.Hang.Waits {
				p := hw.Point
				if i := strings.Index(p, ":"); i > 0 && strings.HasPrefix(p, "auto.") {
					p = p[:i]
				}
				pset[p] = true
			}
			var ps []string
			for k := range pset {
				ps = append(ps, k)
			}
			sort.Strings(ps)
			cycle = "no-lock-cycle:waiting-at:" + strings.Join(ps, "+")
		}
		kinds := []string{cycle}
		out.Violations = append(out.Violations, Violation{"C09.hang", strings.Join(kinds, "+"),
			"operations never return (" + s.Hang.Kind + "): " + strings.Join(s.Hang.Tasks, "; ")})
	} else if s.Aborted != "" {
		out.Discard = "aborted:" + s.Aborted
	}

	if s.Aborted == "" {
		for ai := 0; ai < vaBase+nAtoms; ai++ {
			if ai >= nAtoms && ai < vaBase {
				continue
			}
			// operations cancelled by the injected fault: each either took effect (its return value unconstrained) or
			// did not; the history is linearizable if it is under at least one assignment
			var amb []*opRec
			for _, r := range recs {
				if r.atom == ai && r.done && r.timedOut {
					amb = append(amb, r)
				}
			}
			if len(amb) > 4 {
				out.Stats["porcupine_skipped_many_cancelled"]++
				continue
			}
			tooLong := false
			res := porcupine.Illegal
			for mask := 0; mask < 1<<uint(len(amb)) && res != porcupine.Ok; mask++ {
				var pops []porcupine.Operation
				if ai >= vaBase {
					// the vector atoms start as [0 0 0]: an initial installation before everything else
					pops = append(pops, porcupine.Operation{ClientId: 100000, Input: atomIn{Kind: "swap-vec-init"}, Call: 0, Output: "[0 0 0]", Return: 0})
				}
				for i, r := range recs {
					if r.atom != ai || !r.done {
						continue
					}
					in := r.in
					for k, a := range amb {
						if a == r {
							if mask&(1<<uint(k)) != 0 {
								in.AnyOut = true
							} else {
								in = atomIn{Kind: "swap-fail"}
							}
						}
					}
					pops = append(pops, porcupine.Operation{ClientId: i, Input: in, Call: int64(r.call), Output: r.out, Return: int64(r.ret)})
				}
				if len(pops) > 60 && !siege {
					tooLong = true
					break
				}
				r1 := porcupine.CheckOperationsTimeout(atomModel, pops, 10*time.Second)
				if r1 == porcupine.Ok || (r1 == porcupine.Unknown && res == porcupine.Illegal) {
					res = r1
				}
				if r1 == porcupine.Ok && len(amb) > 0 {
					for k := range amb {
						if mask&(1<<uint(k)) != 0 {
							out.Stats["cancelled_operation_took_effect"]++
						} else {
							out.Stats["cancelled_operation_without_effect"]++
						}
					}
				}
			}
			if tooLong {
				out.Stats["porcupine_skipped_long"]++
				continue
			}
			switch res {
			case porcupine.Ok:
				out.Stats["porcupine_ok"]++
			case porcupine.Unknown:
				out.Stats["porcupine_unknown"]++
			case porcupine.Illegal:
				var lines []string
				for _, r := range recs {
					if r.atom == ai && r.done {
						lines = append(lines, "["+strconv.FormatUint(r.call, 10)+","+strconv.FormatUint(r.ret, 10)+"] "+r.label+" -> "+r.out)
					}
				}
				kinds := map[string]bool{}
				for _, r := range recs {
					if r.atom == ai && r.done {
						kinds[r.in.Kind] = true
					}
				}
				aname := atomName(ai)
				if ai >= vaBase {
					aname = "va" + strconv.Itoa(ai-vaBase)
				}
				var ks []string
				for k := range kinds {
					ks = append(ks, k)
				}
				sort.Strings(ks)
				out.Violations = append(out.Violations, Violation{"C09.linearizability", strings.Join(ks, "+"),
					"history of " + aname + " is not linearizable:\n  " + strings.Join(lines, "\n  ")})
			}
		}
		// memoize: a call invoked after an earlier call with the same argument has returned finds the result
		// in the cache (two overlapping first calls may both compute: that is not a lost entry)
		type memoCall struct {
			arg      string
			inv, ret uint64
			task     int
		}
		var memoCalls []memoCall
		for _, ev := range s.Events {
			if ev.Kind == "inv" {
				if op := ops[ev.A]; op != nil && op.Kind == "memo" {
					memoCalls = append(memoCalls, memoCall{arg: strconv.Itoa(op.Tok % 7), inv: ev.Seq, task: ev.Task})
				}
			}
			if ev.Kind == "ret" {
				if op := ops[ev.A]; op != nil && op.Kind == "memo" {
					for i := len(memoCalls) - 1; i >= 0; i-- {
						if memoCalls[i].task == ev.Task && memoCalls[i].ret == 0 {
							memoCalls[i].ret = ev.Seq
							break
						}
					}
				}
			}
		}
		for _, ev := range s.Events {
			if flood {
				// a table this large may legitimately be pruned: only the values are judged
				break
			}
			if ev.Kind != "trace" || !strings.HasPrefix(ev.A, "(:memo ") {
				continue
			}
			arg := strings.TrimSuffix(strings.TrimPrefix(ev.A, "(:memo "), ")")
			// which memo call computes here: the one of the tracing task (or of the thread whose future body traces)
			owner := ev.Task
			for owner >= 0 && owner < len(s.tasks) && s.tasks[owner].IsBody {
				owner = s.tasks[owner].Parent
			}
			for _, c := range memoCalls {
				if c.task != owner || c.arg != arg || c.ret == 0 || ev.Seq < c.inv || ev.Seq > c.ret {
					continue
				}
				for _, earlier := range memoCalls {
					if earlier.arg == arg && earlier.ret != 0 && earlier.ret < c.inv {
						out.Violations = append(out.Violations, Violation{"C09.library", "memoize-recomputes-a-cached-argument",
							"(memo-f " + arg + ") computed its result again at event " + strconv.FormatUint(ev.Seq, 10) + " although an earlier (memo-f " + arg + ") had returned at event " + strconv.FormatUint(earlier.ret, 10) + " (a cache entry was lost)"})
						break
					}
				}
			}
		}
		out.Violations = firstPerClause(out.Violations)
		seen := map[string]bool{}
		for _, g := range gensyms {
			if seen[g] {
				out.Violations = append(out.Violations, Violation{"C09.library", "gensym-duplicate", "gensym returned " + g + " twice"})
			}
			seen[g] = true
		}
		if memoBad != "" {
			out.Violations = append(out.Violations, Violation{"C09.library", "memoize", memoBad})
		}
	}

	windows := int64(0)
	for i, k := range s.Preempted.Keys {
		if k != "step" {
			windows += s.Preempted.Vals[i]
		}
	}
	for i, k := range s.Points.Keys {
		if strings.HasSuffix(k, "#contended") {
			windows += s.Points.Vals[i]
		}
	}
	out.Nontrivial = len(s.tasks) >= 2 && s.Switches > 1 && windows > 0
	if opt.Full {
		out.Sample = map[string]interface{}{"atoms": nAtoms, "threads": nThreads, "program": rendering,
			"cfg": map[string]int{"Q": cfg.Q, "WindowBias": cfg.WindowBias, "StarveID": cfg.StarveID, "PCTDepth": cfg.PCTDepth}}
	}
	return out
}

func isTimeoutText(s string) bool { return strings.Contains(s, "timeout") }
