"""Per-property texts used by ./check when it writes evidence files."""

REAL_VS_STUB = {
    "real": ["mal.go READ/EVAL/PRINT/try/macroexpand", "env", "types", "reader", "printer", "lisperror", "lib/call",
             "lib/core (incl. sleep)", "lib/concurrent (atoms, futures)", "header-basic/coreextended/concurrent lisp libraries",
             "context and time from the Go standard library (time on the synctest fake clock)"],
    "stub": ["Go scheduler's choice of the running goroutine (seeded token scheduler)", "wall clock and timers (testing/synctest fake clock)",
             "embedding application (simulated caller threads)", "embedder-supplied Go builtins (trace!, h-begin/h-end, gate!, probe!)"],
    "not_run": ["repl", "debugger (terminal)", "command", "cmd/lisp", "lib/system"],
}

COMMON_ASSUMPTIONS = [
    "sampling, not proof: a clean batch is evidence for the schedules and faults explored",
    "interleavings are explored at hook granularity (evaluation steps, named windows, lock acquisitions, blocking points)",
    "the race oracle is the Go race detector (ThreadSanitizer, happens-before, bounded history) under a schedule whose hand-offs are hidden from it",
    "simulation runs under go1.26.8 (testing/synctest); the baseline suite under the default toolchain",
]

PROPS = {
    "C09": {
        "level": "exploration",
        "design_ref": "DESIGN.md §5.1",
        "technique": "deterministic simulation: seeded schedules over deref/reset!/swap! histories; porcupine linearizability + hang detection + race detector",
        "level_text": "Seeded search over interleavings of concurrent atom operations executed by the real interpreter under a token scheduler; "
                      "every recorded history is checked for linearizability against the sequential atom model (porcupine), hangs are decided by the "
                      "scheduler (no enabled task / horizon), data races by the Go race detector on the same tapes. Evidence, not proof: interleavings "
                      "are sampled at hook granularity.",
        "level_note": "Trusts the simulator (token scheduler, synctest clock), porcupine, ThreadSanitizer; operations inside a Go builtin or an env critical section are atomic in the simulation.",
        "rule": "one run = one seeded tape: 1-3 atoms, 2-5 simulated caller threads x 1-6 operations (deref/reset!/swap! with pure, wide, "
                "builtin, failing, atom-reading, self-reading and other-atom-updating update functions, some wrapped in futures, plus gensym/memoize), "
                "scheduled by the seeded token scheduler at evaluation steps, lock acquisitions and the swap! read/apply windows. "
                "non-trivial = at least 2 tasks, more than one token switch and at least one preemption inside a named window or one contended lock; "
                "distinct = distinct hash of the sequence of (task, hook point) pairs at which the token changed hands",
        "assumptions": COMMON_ASSUMPTIONS + ["an update function that updates the very atom being swapped is excluded (as in the property)"],
        "must_hit": ["preempt:atom.swap.read", "preempt:atom.swap.applied", "point:atom.swap.retry", "porcupine_ok"],
        "race": True, "race_share": 0.4,
    },
    "C10": {
        "level": "exploration",
        "design_ref": "DESIGN.md §5.2",
        "technique": "deterministic simulation: seeded schedules of body completion vs deref/status/cancel; history obligations O1-O6 + race detector",
        "level_text": "Seeded search over interleavings of a future's body (completing at once, at scheduler-chosen gates, at simulated instants, "
                      "normally or by throwing, honouring or ignoring cancellation) with concurrent deref / future-done? / future-cancelled? / future-cancel "
                      "calls with and without deadlines on the fake clock; the recorded history is checked against obligations phrased over observable events "
                      "and event stamps only, data races by the Go race detector on the same tapes.",
        "level_note": "Trusts the simulator, the synctest clock and ThreadSanitizer; 'completed' is defined from observable events only (body thread ended, an outcome-returning deref or a true future-done? returned earlier).",
        "rule": "one run = one seeded tape: a creator thread defines 1-2 futures (body: value, throw, failing builtin, context-aware gate, context-ignoring gate, "
                "sleep, busy loop, deref of the other future), 1-4 caller threads x 1-5 operations (deref with/without deadline, future-done?, future-cancelled?, "
                "future-cancel, naps), a gatekeeper opening gates at scheduler-chosen instants, optionally a deadline on the creator's context. "
                "non-trivial = at least 3 tasks, more than two token switches and at least one preemption inside a future.* window or one wake-up from a real blocking deref/sleep; "
                "distinct = distinct hash of the sequence of (task, hook point) pairs at which the token changed hands",
        "assumptions": COMMON_ASSUMPTIONS + ["a second future-cancel on an already cancelled future may return either value (the statement does not say)",
                                             "the word 'timeout' in an error message identifies timeout-kind errors"],
        "must_hit": ["preempt:future.delivered", "preempt:future.body-returned", "preempt:future.cancel.enter", "preempt:future.done-set", "wake:future.deref.ctx", "wake:future.deref.val", "wake:future.deref.err", "fault:creator-deadline"],
        "race": True, "race_share": 0.4,
    },
}
