package lispsim

import (
	"os"
	"sort"
	"strconv"
	"strings"
)

// The race binary runs with GORACE="halt_on_error=0 log_path=<p> suppress_equal_stacks=0
// suppress_equal_addresses=0 history_size=7"; reports go to <p>.<pid>. The run that was executing
// when runtime.RaceErrors() increased owns the text appended meanwhile.

func raceLogFile() string {
	p := os.Getenv("LISPSIM_RACELOG")
	if p == "" {
		return ""
	}
	return p + "." + strconv.Itoa(os.Getpid())
}

func raceLogOffset() int64 {
	f := raceLogFile()
	if f == "" {
		return 0
	}
	st, err := os.Stat(f)
	if err != nil {
		return 0
	}
	return st.Size()
}

func raceLogSince(off int64) string {
	f := raceLogFile()
	if f == "" {
		return "(race report on stderr: LISPSIM_RACELOG not set)"
	}
	b, err := os.ReadFile(f)
	if err != nil || int64(len(b)) < off {
		return "(race report not readable)"
	}
	s := string(b[off:])
	if len(s) > 12000 {
		s = s[:12000] + "\n...(truncated)"
	}
	return s
}

// classifyRace extracts, from the first report in text, the top-most frame of each of the two
// conflicting accesses. A report in which neither access has a frame inside github.com/jig/lisp
// is a defect of the harness, not of the program ("harness-race").
func classifyRace(text string) (clause, sig string) {
	lines := strings.Split(text, "\n")
	var frames []string
	program := false
	inAccess := false
	gotTop := false
	gotProg := false
	reports := 0
	for _, ln := range lines {
		l := strings.TrimSpace(ln)
		if strings.HasPrefix(l, "WARNING: DATA RACE") {
			reports++
			if reports > 1 {
				break
			}
			continue
		}
		low := strings.ToLower(l)
		if strings.HasPrefix(low, "write at") || strings.HasPrefix(low, "read at") ||
			strings.HasPrefix(low, "previous write at") || strings.HasPrefix(low, "previous read at") ||
			strings.HasPrefix(low, "atomic") || strings.HasPrefix(low, "previous atomic") {
			inAccess = true
			gotTop = false
			continue
		}
		if l == "" {
			inAccess = false
			continue
		}
		if strings.HasPrefix(l, "Goroutine ") {
			inAccess = false
			continue
		}
		if inAccess && !strings.HasPrefix(l, "/") && strings.Contains(l, "(") {
			fn := l[:strings.LastIndex(l, "(")]
			inProgram := strings.HasPrefix(fn, "github.com/jig/lisp") && !strings.Contains(fn, "/simhook.")
			if !gotTop {
				// the top-most frame; replaced below by the top-most frame inside the program, if any
				frames = append(frames, fn)
				gotTop = true
				gotProg = false
			}
			if inProgram {
				program = true
				if !gotProg {
					frames[len(frames)-1] = fn
					gotProg = true
				}
			}
		}
	}
	sort.Strings(frames)
	sig = strings.Join(frames, " <-> ")
	if !program {
		return "harness-race", sig
	}
	return "race", sig
}
