package lispsim

// Worker entry point. The driver (/verif/check) starts this test binary with LISPSIM=<json>:
//
//	{"mode":"batch","prop":"C09","seed":1,"from":0,"to":500,"tier":"quick","out":"<file>","replay_dir":"<dir>"}
//	{"mode":"hashes","prop":"C09","seed":1,"from":0,"to":200,"out":"<file>"}     (determinism self-test)
//	{"mode":"replay","file":"<replay.json>","out":"<file>"}
//
// Exit codes of the worker: 0 ok, 1 violation(s) written to out, 2 harness trouble.

import (
	"encoding/json"
	"fmt"
	"os"
	"runtime"
	"runtime/debug"
	"sort"
	"strconv"
	"strings"
	"sync/atomic"
	"testing"
	"time"
)

type workerArgs struct {
	Mode      string `json:"mode"`
	Prop      string `json:"prop"`
	Seed      uint64 `json:"seed"`
	From      uint64 `json:"from"`
	To        uint64 `json:"to"`
	Tier      string `json:"tier"`
	Out       string `json:"out"`
	ReplayDir string `json:"replay_dir"`
	File      string `json:"file"`
	Budget    int    `json:"budget_s"` // wall-clock budget for this worker (0: none)
	Samples   int    `json:"samples"`
	MaxMin    int    `json:"max_minimise"`
}

type ReplayFile struct {
	Property   string              `json:"property"`
	Clause     string              `json:"clause"`
	Sig        string              `json:"sig"`
	Detail     string              `json:"detail"`
	Seed       uint64              `json:"seed"`
	Run        uint64              `json:"run"`
	Tier       string              `json:"tier"`
	Race       bool                `json:"race_binary"`
	GoMaxProcs int                 `json:"gomaxprocs,omitempty"`
	Tape       map[string][]uint32 `json:"tape"`
	Minimised  bool                `json:"minimised"`
	OrigLen    int                 `json:"original_tape_len"`
	Case       interface{}         `json:"case,omitempty"`
	Log        []string            `json:"event_log,omitempty"`
}

type foundViolation struct {
	Violation
	Replay     string   `json:"replay"`
	AltReplays []string `json:"alt_replays"`
	Run        uint64   `json:"run"`
	Count      int      `json:"count"`
}

type workerSummary struct {
	Prop                string           `json:"prop"`
	Race                bool             `json:"race"`
	Runs                int              `json:"runs"`
	Judged              int              `json:"judged"`
	Discarded           map[string]int   `json:"discarded"`
	Nontrivial          int              `json:"nontrivial"`
	Hashes              []uint64         `json:"nontrivial_hashes"`
	SimTimeNs           int64            `json:"sim_time_ns"`
	Steps               int64            `json:"steps"`
	Decisions           int64            `json:"decisions"`
	Switches            int64            `json:"switches"`
	Stats               map[string]int64 `json:"stats"`
	Violations          []foundViolation `json:"violations"`
	Samples             []interface{}    `json:"samples"`
	WallS               float64          `json:"wall_s"`
	Error               string           `json:"error,omitempty"`
	From                uint64           `json:"from"`
	To                  uint64           `json:"to"`
	StoppedAt           uint64           `json:"stopped_at"`
	UnreproducibleRaces []string         `json:"unreproducible_races"`
	Unreproducible      []string         `json:"unreproducible"`
}

var progress int64

func tapeToMap(rec [nLanes][]uint32) map[string][]uint32 {
	m := map[string][]uint32{}
	for l := Lane(0); l < nLanes; l++ {
		if rec[l] == nil {
			m[laneNames[l]] = []uint32{}
		} else {
			m[laneNames[l]] = rec[l]
		}
	}
	return m
}

func mapToTape(m map[string][]uint32) [nLanes][]uint32 {
	var rec [nLanes][]uint32
	for l := Lane(0); l < nLanes; l++ {
		rec[l] = m[laneNames[l]]
	}
	return rec
}

func hasClause(o *RunOut, clause string) *Violation {
	for i := range o.Violations {
		if o.Violations[i].Clause == clause {
			return &o.Violations[i]
		}
	}
	return nil
}

func writeJSON(path string, v interface{}) {
	b, err := json.MarshalIndent(v, "", " ")
	if err != nil {
		fmt.Fprintln(os.Stderr, "harness: cannot marshal:", err)
		os.Exit(2)
	}
	if err := os.WriteFile(path, b, 0o644); err != nil {
		fmt.Fprintln(os.Stderr, "harness: cannot write:", err)
		os.Exit(2)
	}
}

func TestSim(t *testing.T) {
	raw := os.Getenv("LISPSIM")
	if raw == "" {
		t.Skip("LISPSIM not set")
	}
	var a workerArgs
	if err := json.Unmarshal([]byte(raw), &a); err != nil {
		fmt.Fprintln(os.Stderr, "harness: bad LISPSIM:", err)
		os.Exit(2)
	}
	// real-time watchdog: a task blocked for real while holding the token stalls the bubble
	go func() {
		last := atomic.LoadInt64(&progress)
		stuck := 0
		for {
			time.Sleep(5 * time.Second)
			cur := atomic.LoadInt64(&progress)
			if cur == last {
				stuck++
			} else {
				stuck = 0
			}
			last = cur
			if stuck >= 36 {
				fmt.Fprintln(os.Stderr, "harness: WATCHDOG no progress for 180 s (un-modelled blocking?); goroutine dump follows")
				debug.SetTraceback("all")
				buf := make([]byte, 1<<20)
				n := runtimeStack(buf)
				os.Stderr.Write(buf[:n])
				os.Exit(2)
			}
		}
	}()
	if a.Prop == "C18" || strings.Contains(a.File, "C18-") {
		initShippedDebugger()
	}
	code := 0
	switch a.Mode {
	case "batch":
		code = workerBatch(t, a)
	case "hashes":
		code = workerHashes(t, a)
	case "replay":
		code = workerReplay(t, a)
	default:
		fmt.Fprintln(os.Stderr, "harness: unknown mode", a.Mode)
		code = 2
	}
	os.Exit(code)
}

func workerBatch(t *testing.T, a workerArgs) int {
	p, ok := properties[a.Prop]
	if !ok {
		fmt.Fprintln(os.Stderr, "harness: unknown property", a.Prop)
		return 2
	}
	t0 := time.Now()
	sum := &workerSummary{Prop: a.Prop, Race: raceBuild, Discarded: map[string]int{}, Stats: map[string]int64{}, From: a.From, To: a.To}
	seenH := map[uint64]bool{}
	seenV := map[string]*foundViolation{}
	minimised := 0
	if a.MaxMin == 0 {
		a.MaxMin = 4
	}
	if a.Budget > 0 {
		minimiseWall = time.Duration(a.Budget) * time.Second / 6
		if minimiseWall < 3*time.Second {
			minimiseWall = 3 * time.Second
		}
		if minimiseWall > 40*time.Second {
			minimiseWall = 40 * time.Second
		}
	}
	idx := a.From
	for ; idx < a.To; idx++ {
		if a.Budget > 0 && time.Since(t0) > time.Duration(a.Budget)*time.Second {
			break
		}
		atomic.AddInt64(&progress, 1)
		tp := NewTape(a.Seed, a.Prop, idx)
		wantSample := len(sum.Samples) < a.Samples
		o := runOne(t, p, tp, RunOpt{Tier: a.Tier, Full: wantSample})
		sum.Runs++
		for k, v := range o.Stats {
			sum.Stats[k] += v
		}
		sum.SimTimeNs += int64(o.SimTime)
		sum.Steps += o.Steps
		sum.Decisions += int64(o.Decisions)
		sum.Switches += int64(o.Switches)
		if hv := hasClause(o, a.Prop+".harness-race"); hv != nil {
			sum.Error = "race report without any frame of the program under test (harness defect):\n" + hv.Detail
			break
		}
		if o.Discard != "" && len(o.Violations) == 0 {
			sum.Discarded[o.Discard]++
			continue
		}
		sum.Judged++
		if o.Nontrivial {
			sum.Nontrivial++
			if !seenH[o.ILHash] && len(seenH) < 300000 {
				seenH[o.ILHash] = true
			}
		}
		if wantSample && len(o.Violations) == 0 && o.Nontrivial {
			sum.Samples = append(sum.Samples, map[string]interface{}{"run": idx, "case": o.Sample, "event_log_head": head(o.Log, 60)})
		}
		for _, v := range o.Violations {
			key := v.Clause + "|" + v.Sig
			if fv, ok := seenV[key]; ok {
				fv.Count++
				if len(fv.AltReplays) < 3 && fv.Run != idx {
					// a few more instances of the same shape, as recorded (not minimised): should the first one
					// turn out not to reproduce in a fresh process, the driver tries these
					rec := tp.Recorded()
					alt := ReplayFile{Property: a.Prop, Clause: v.Clause, Sig: v.Sig, Detail: v.Detail, Seed: a.Seed, Run: idx, Tier: a.Tier, Race: raceBuild, GoMaxProcs: runtime.GOMAXPROCS(0),
						OrigLen: len(rec[0]) + len(rec[1]) + len(rec[2]), Tape: tapeToMap(rec)}
					name := fmt.Sprintf("%s/%s-%s-%d-%d%s.json", a.ReplayDir, a.Prop, sanitize(v.Clause), a.Seed, idx, map[bool]string{true: "-race", false: ""}[raceBuild])
					writeJSON(name, alt)
					fv.AltReplays = append(fv.AltReplays, name)
				}
				continue
			}
			fv := &foundViolation{Violation: v, Run: idx, Count: 1}
			seenV[key] = fv
			rec := tp.Recorded()
			rf := ReplayFile{Property: a.Prop, Clause: v.Clause, Sig: v.Sig, Detail: v.Detail, Seed: a.Seed, Run: idx, Tier: a.Tier, Race: raceBuild, GoMaxProcs: runtime.GOMAXPROCS(0),
				OrigLen: len(rec[0]) + len(rec[1]) + len(rec[2])}
			if minimised < a.MaxMin {
				minimised++
				rec2, v2 := minimise(t, p, rec, v, RunOpt{Tier: a.Tier})
				rec = rec2
				rf.Minimised = true
				rf.Sig, rf.Detail = v2.Sig, v2.Detail
				fv.Sig, fv.Detail = v2.Sig, v2.Detail
				if k2 := v2.Clause + "|" + v2.Sig; k2 != key {
					// the minimised history has a simpler shape: file it under that shape
					if prev, ok := seenV[k2]; ok {
						prev.Count++
						delete(seenV, key)
						continue
					}
					delete(seenV, key)
					seenV[k2] = fv
				}
			}
			if a.MaxMin < 0 {
				// one process per run (the code under test keeps state between runs of one process): a second
				// execution here would start from that state. The replay file is written from the tape as recorded;
				// the driver confirms it in a fresh process.
				rf.Tape = tapeToMap(rec)
				name := fmt.Sprintf("%s/%s-%s-%d-%d%s.json", a.ReplayDir, a.Prop, sanitize(v.Clause), a.Seed, idx, map[bool]string{true: "-race", false: ""}[raceBuild])
				writeJSON(name, rf)
				fv.Replay = name
				continue
			}
			// final confirming run with the full log
			oc := runOne(t, p, ReplayTape(rec), RunOpt{Tier: a.Tier, Full: true})
			// the schedule replays exactly; whether ThreadSanitizer still holds the earlier access in its
			// bounded shadow state when the later one happens can differ between executions: a race report is
			// retried a few times before it counts as not reproducible
			for try := 0; try < 6 && hasClause(oc, v.Clause) == nil && strings.HasSuffix(v.Clause, ".race"); try++ {
				oc = runOne(t, p, ReplayTape(rec), RunOpt{Tier: a.Tier, Full: true})
				if hasClause(oc, v.Clause) == nil && try >= 2 {
					// fall back to the tape as recorded (the minimised one may sit on the edge)
					rec = tp.Recorded()
					rf.Minimised = false
				}
			}
			if hasClause(oc, v.Clause) == nil && strings.HasSuffix(v.Clause, ".race") {
				// a genuine report (ThreadSanitizer has no false positives and the scheduler adds no edges), but
				// one the detector does not raise again on the same schedule: it cannot be handed out with a
				// replay file. It is kept in the summary; the driver decides what to do with it.
				sum.UnreproducibleRaces = append(sum.UnreproducibleRaces, "run "+strconv.FormatUint(idx, 10)+": "+v.Sig+"\n"+v.Detail)
				delete(seenV, key)
				continue
			}
			if hasClause(oc, v.Clause) == nil {
				// once more from the tape as recorded (not the minimised one)
				rec = tp.Recorded()
				rf.Minimised = false
				oc = runOne(t, p, ReplayTape(rec), RunOpt{Tier: a.Tier, Full: true})
			}
			if hasClause(oc, v.Clause) == nil {
				// the run depended on something that is not on the tape (state that earlier runs left behind in this
				// process, or nondeterminism in the code under test): no replay file can be handed out for it. It is
				// kept in the summary; the driver ends with exit 2 unless a replayable violation is found as well.
				sum.Unreproducible = append(sum.Unreproducible, "violation "+v.Clause+" ("+v.Sig+") of run "+strconv.FormatUint(idx, 10)+" did not reproduce from its own tape")
				delete(seenV, key)
				continue
			}
			rf.Tape = tapeToMap(rec)
			rf.Case = oc.Sample
			rf.Log = head(oc.Log, 400)
			name := fmt.Sprintf("%s/%s-%s-%d-%d%s.json", a.ReplayDir, a.Prop, sanitize(v.Clause), a.Seed, idx, map[bool]string{true: "-race", false: ""}[raceBuild])
			writeJSON(name, rf)
			fv.Replay = name
		}
		if sum.Error != "" {
			break
		}
	}
	sum.StoppedAt = idx
	for h := range seenH {
		sum.Hashes = append(sum.Hashes, h)
	}
	sort.Slice(sum.Hashes, func(i, j int) bool { return sum.Hashes[i] < sum.Hashes[j] })
	keys := make([]string, 0, len(seenV))
	for k := range seenV {
		keys = append(keys, k)
	}
	sort.Strings(keys)
	for _, k := range keys {
		sum.Violations = append(sum.Violations, *seenV[k])
	}
	sum.WallS = time.Since(t0).Seconds()
	writeJSON(a.Out, sum)
	if sum.Error != "" {
		fmt.Fprintln(os.Stderr, "harness:", sum.Error)
		return 2
	}
	if len(sum.Violations) > 0 {
		return 1
	}
	return 0
}

func head(l []string, n int) []string {
	if len(l) > n {
		return append(append([]string{}, l[:n]...), "... ("+strconv.Itoa(len(l)-n)+" more)")
	}
	return l
}

func sanitize(s string) string {
	return strings.Map(func(r rune) rune {
		if r >= 'a' && r <= 'z' || r >= 'A' && r <= 'Z' || r >= '0' && r <= '9' || r == '-' || r == '.' {
			return r
		}
		return '_'
	}, s)
}

// workerHashes prints one line per run with everything that must be identical across processes.
func workerHashes(t *testing.T, a workerArgs) int {
	p, ok := properties[a.Prop]
	if !ok {
		return 2
	}
	var sb strings.Builder
	for idx := a.From; idx < a.To; idx++ {
		atomic.AddInt64(&progress, 1)
		tp := NewTape(a.Seed, a.Prop, idx)
		o := runOne(t, p, tp, RunOpt{Tier: a.Tier})
		// second execution in the same process from the recorded tape
		o2 := runOne(t, p, ReplayTape(tp.Recorded()), RunOpt{Tier: a.Tier})
		var cls []string
		for _, v := range o.Violations {
			if !strings.HasSuffix(v.Clause, ".race") {
				cls = append(cls, v.Clause+"|"+v.Sig)
			}
		}
		same := "same"
		if o.EvHash != o2.EvHash || o.ILHash != o2.ILHash || o.SimTime != o2.SimTime {
			same = "DIFFERS-IN-PROCESS"
		}
		if o.Discard == "ambiguous_select" && o2.Discard == "ambiguous_select" {
			// a select entered with two ready cases is resolved by the Go runtime's own RNG: such runs are
			// never judged; what must be deterministic is that they are recognised
			fmt.Fprintf(&sb, "%d discard=%q (not judged)\n", idx, o.Discard)
			continue
		}
		fmt.Fprintf(&sb, "%d ev=%x il=%x sim=%d steps=%d dec=%d discard=%q viol=%v %s\n", idx, o.EvHash, o.ILHash, int64(o.SimTime), o.Steps, o.Decisions, o.Discard, cls, same)
	}
	if err := os.WriteFile(a.Out, []byte(sb.String()), 0o644); err != nil {
		return 2
	}
	return 0
}

func workerReplay(t *testing.T, a workerArgs) int {
	b, err := os.ReadFile(a.File)
	if err != nil {
		fmt.Fprintln(os.Stderr, "harness: cannot read replay file:", err)
		return 2
	}
	var rf ReplayFile
	if err := json.Unmarshal(b, &rf); err != nil {
		fmt.Fprintln(os.Stderr, "harness: bad replay file:", err)
		return 2
	}
	p, ok := properties[rf.Property]
	if !ok {
		return 2
	}
	o := runOne(t, p, ReplayTape(mapToTape(rf.Tape)), RunOpt{Tier: rf.Tier, Full: true})
	res := map[string]interface{}{"property": rf.Property, "expected_clause": rf.Clause, "violations": o.Violations, "case": o.Sample, "event_log": head(o.Log, 400), "reproduced": hasClause(o, rf.Clause) != nil}
	if a.Out != "" {
		writeJSON(a.Out, res)
	}
	if v := hasClause(o, rf.Clause); v != nil {
		fmt.Printf("REPRODUCED clause=%s sig=%s\n%s\n", v.Clause, v.Sig, v.Detail)
		return 1
	}
	fmt.Printf("NOT-REPRODUCED expected clause=%s; observed %d other violation(s)\n", rf.Clause, len(o.Violations))
	for _, v := range o.Violations {
		fmt.Printf("  other: %s sig=%s\n", v.Clause, v.Sig)
	}
	return 0
}
