package lispsim

// The deterministic scheduler. Simulated caller threads and future bodies are real goroutines;
// exactly one of them holds the token at any time, every other one is parked on its private wake
// channel or durably blocked in a real select the simulator knows about (sleep, Future.Deref).
//
// Everything in this file that touches shared simulator state is compiled //go:norace and
// brackets its synchronisation with raceOff/raceOn, so the race detector sees the program's own
// synchronisation only (DESIGN.md §3.5). No closures inside norace functions (they would be
// instrumented separately), no fmt in task-side code outside raceOff (sync.Pool edges).

import (
	"context"
	"runtime"
	"sort"
	"strconv"
	"strings"
	"sync"
	"sync/atomic"
	"testing/synctest"
	"time"

	"github.com/jig/lisp/lib/concurrent"
)

type TaskState int

const (
	tsRunnable TaskState = iota // parked, wants the token
	tsWaiting                   // parked, wants the token once ready() holds
	tsRunning                   // holds the token
	tsBlocked                   // in a real blocking select
	tsDone
)

var stateNames = []string{"runnable", "waiting", "running", "blocked", "done"}

type Task struct {
	ID        int
	Name      string
	Parent    int
	IsBody    bool // started by the program (future body), not by the harness
	Steps     int64
	LoopIters int64 // iterations of instrumented Go-level loops (auto.loop yields)
	User      interface{}
	// SpawnObj is the object handed to simhook.Spawn (the *Future whose body this task runs).
	SpawnObj interface{}

	wake    chan int
	state   TaskState
	point   string
	obj     interface{}
	ready   func() bool
	quantum int
	prio    int
	// lockDepth counts the mutexes this task holds in auto-instrumented files (auto.locked/auto.unlocked
	// marks): while it is positive the task is preempted only at lock acquisitions, never at plain yields
	lockDepth   int
	fuse        int                // hook points left until fuseFn is called (0: no fuse)
	fuseFn      context.CancelFunc // the injected fault: cancels the context of the operation in flight
	fuseFired   bool
	stopAtLock  bool // contention mode: preempt this task right after its next lock acquisition
	pendingDrop bool
	wokeAt      time.Duration // simulated instant at which the last real blocking operation fired
	blockedAt   time.Duration // simulated instant at which it was entered
	fn          func(*Task)
	which       string
	started     bool
	// syncWord carries one happens-before edge from this task to the scheduler each time the task parks
	// with a readiness predicate: the scheduler evaluates the predicate (which may read program memory,
	// e.g. a pointer to a mutex) on the task's behalf and must know what the task knew. Tasks only store
	// (release), only the scheduler loads (acquire), so no edge between tasks arises.
	syncWord int64
	timed    bool // waiting on a predicate that a timer may make true (counts as blocked, not as deadlocked)
}

type SimCfg struct {
	Q            int           // at switch-in draw q in [0,Q); q==0: run until it blocks, else preempt at the q-th hook point
	WindowBias   int           // at named windows additionally preempt with probability 1/WindowBias (0: off)
	StepCost     time.Duration // simulated cost of one evaluation step (0: the clock never moves by itself)
	StepJitter   int           // if >1 a step costs StepCost*(1+draw(StepJitter))
	Horizon      time.Duration // simulated time after which a run that cannot progress is a HANG
	MaxDecisions int
	MaxSteps     int64 // per task
	// PCTDepth > 0 selects the PCT policy (Burckhardt et al.): every task gets a random priority, the
	// highest-priority enabled task always runs, and at PCTDepth-1 random hook points (drawn in
	// [0,PCTSpan)) the running task's priority drops below all others. Q and WindowBias are ignored.
	PCTDepth   int
	PCTSpan    int
	StarveID   int // task id not scheduled during [StarveFrom, StarveFrom+StarveLen) decisions unless alone; -1: none
	StarveFrom int
	StarveLen  int
	// Siege: task SiegeVictim is preempted every time it reaches the point SiegePoint (the window between
	// reading an atom and installing the result) and task SiegeAdversary then runs exactly one of its
	// operations (up to its next "siege.op-done" point) before the victim continues: the victim loses as
	// many rounds in a row as the adversary has operations. Nothing else is preempted (use Q=1, WindowBias=0).
	Siege          bool
	SiegeVictim    int
	SiegeAdversary int
	SiegePoint     string
	FullLog    bool
}

type Ev struct {
	Seq  uint64
	Task int
	Kind string
	A, B string
	N    int64
	Obj  interface{} // identity of the object a hook event refers to (never hashed or printed)
}

type HangReport struct {
	Kind  string // "deadlock" (nobody can ever run) or "horizon" (blocked past the horizon)
	Tasks []string
	Waits []HangWait
}

// HangWait is one task that could not proceed when the run was declared hung.
type HangWait struct {
	Task  int
	Name  string
	State string
	Point string
	Obj   interface{} // what it waits for (an *Atom for lock waits, a *Future for derefs)
}

//go:norace
func (s *Sim) describeWaits() []HangWait {
	var out []HangWait
	for _, t := range s.tasks {
		if t.state == tsDone {
			continue
		}
		out = append(out, HangWait{Task: t.ID, Name: t.Name, State: stateNames[t.state], Point: t.point, Obj: t.obj})
	}
	return out
}

// StepHook lets a property act at every evaluation step of the token holder (norace methods only).
type StepHook interface {
	OnStep(s *Sim, t *Task, ctx context.Context, ast, env interface{})
}

type Sim struct {
	mu   sync.Mutex
	tape *Tape
	cfg  SimCfg

	siegeWant   int
	SiegeRounds int64

	tasks   []*Task
	cur     *Task
	last    *Task
	yielded chan struct{}
	arrive  chan struct{}
	horizon <-chan time.Time
	start   time.Time

	poisoned bool
	abortReq string
	Aborted  string // reason the run was cut short ("" if it ran to completion)
	Hang     *HangReport
	Leaked   int
	Panics   []string // panics of task goroutines (each would have ended the process)
	Ambig    int      // selects entered with more than one ready case (run must be discarded)

	seq        uint64
	Events     []Ev
	evHash     uint64
	ilHash     uint64
	Log        []string
	Decisions  int
	Switches   int
	TotalSteps int64
	Points     Counters
	Preempted  Counters
	BlockWakes Counters
	OnStep     StepHook
	RecPoints  []string // hook points whose passage is recorded as a history event
	cancels    []context.CancelFunc
	endSync    int64
	contender  *Task // a task about to call TryLock/TryRLock for which another task is being made to hold a lock
	contendGo  bool  // the lock is held now: the contender runs next
	gates      []string
	hookCount  int
	pctPoints  []int
	pctLow     int
}

// Counters is a small linear table: Go maps are race-instrumented by the runtime even inside
// norace functions, so shared simulator state must not use them.
type Counters struct {
	Keys []string
	Vals []int64
}

//go:norace
func (c *Counters) Add(k string, n int64) {
	for i := range c.Keys {
		if c.Keys[i] == k {
			c.Vals[i] += n
			return
		}
	}
	c.Keys = append(c.Keys, k)
	c.Vals = append(c.Vals, n)
}

//go:norace
func (c *Counters) Get(k string) int64 {
	for i := range c.Keys {
		if c.Keys[i] == k {
			return c.Vals[i]
		}
	}
	return 0
}

//go:norace
func NewSim(tape *Tape, cfg SimCfg) *Sim {
	if cfg.Q < 1 {
		cfg.Q = 1
	}
	if cfg.Horizon == 0 {
		cfg.Horizon = time.Hour
	}
	if cfg.MaxDecisions == 0 {
		cfg.MaxDecisions = 20000
	}
	if cfg.MaxSteps == 0 {
		cfg.MaxSteps = 2000000
	}
	var pts []int
	if cfg.PCTDepth > 0 {
		if cfg.PCTSpan < 2 {
			cfg.PCTSpan = 200
		}
		for i := 1; i < cfg.PCTDepth; i++ {
			pts = append(pts, 1+tape.Draw(LaneSched, cfg.PCTSpan))
		}
	}
	return &Sim{
		pctPoints: pts,
		pctLow:    -1,
		tape:      tape,
		cfg:       cfg,
		yielded:   make(chan struct{}),
		arrive:    make(chan struct{}, 1),
		start:     time.Now(),
		evHash:    1469598103934665603,
		ilHash:    1469598103934665603,
		siegeWant: -1,
	}
}

//go:norace
func (s *Sim) Now() time.Duration { return time.Since(s.start) }

//go:norace
func (s *Sim) Cur() *Task { return s.cur }

//go:norace
func (s *Sim) Tape() *Tape { return s.tape }

//go:norace
func (s *Sim) Tasks() []*Task { return s.tasks }

// AddCancel registers a root context's cancel function; all are called when a run is aborted.
//
//go:norace
func (s *Sim) AddCancel(c context.CancelFunc) { s.cancels = append(s.cancels, c) }

//go:norace
func fnv(h uint64, str string) uint64 {
	for i := 0; i < len(str); i++ {
		h ^= uint64(str[i])
		h *= 1099511628211
	}
	h ^= 0xff
	h *= 1099511628211
	return h
}

// Rec appends an event to the history, stamped with the global event sequence number, and
// returns the stamp. Only the token holder (or the root before/after the run) calls it.
//
//go:norace
func (s *Sim) Rec(kind, a, b string, n int64) uint64 {
	s.seq++
	tid := -1
	if s.cur != nil {
		tid = s.cur.ID
	}
	s.Events = append(s.Events, Ev{Seq: s.seq, Task: tid, Kind: kind, A: a, B: b, N: n})
	h := s.evHash
	h = fnv(h, strconv.FormatUint(s.seq, 10))
	h = fnv(h, strconv.Itoa(tid))
	h = fnv(h, kind)
	h = fnv(h, a)
	h = fnv(h, b)
	h = fnv(h, strconv.FormatInt(n, 10))
	s.evHash = h
	if s.cfg.FullLog {
		s.Log = append(s.Log, strconv.FormatUint(s.seq, 10)+" t="+strconv.FormatInt(int64(s.Now()), 10)+" task="+strconv.Itoa(tid)+" "+kind+" "+a+" "+b+" "+strconv.FormatInt(n, 10))
	}
	return s.seq
}

//go:norace
func (s *Sim) EventHash() uint64 { return s.evHash }

//go:norace
func (s *Sim) InterleavingHash() uint64 { return s.ilHash }

// Go registers a harness task (a simulated caller thread). Must be called by the root before
// Run, or by the token holder.
//
//go:norace
func (s *Sim) Go(name string, fn func(*Task)) *Task {
	t := s.newTask(name, false)
	t.fn = fn
	go taskMain(s, t)
	return t
}

//go:norace
func (s *Sim) newTask(name string, body bool) *Task {
	raceOff()
	s.mu.Lock()
	t := &Task{ID: len(s.tasks), Name: name, IsBody: body, wake: make(chan int), state: tsRunnable, point: "task.start", Parent: -1}
	if s.cur != nil {
		t.Parent = s.cur.ID
	}
	if s.cfg.PCTDepth > 0 {
		t.prio = 1 + s.tape.Draw(LaneSched, 1<<16)
	}
	s.tasks = append(s.tasks, t)
	s.mu.Unlock()
	raceOn()
	return t
}

func taskMain(s *Sim, t *Task) {
	defer taskMainEnd(s, t)
	s.TaskStart(t)
	t.fn(t)
}

func taskMainEnd(s *Sim, t *Task) {
	if r := recover(); r != nil {
		s.TaskPanic(t, r)
	}
	s.TaskEnd(t)
}

// TaskPanic records a panic that reached the top of a task's goroutine.
//
//go:norace
func (s *Sim) TaskPanic(handle interface{}, value interface{}) {
	raceOff()
	msg := panicString(value)
	s.mu.Lock()
	s.Panics = append(s.Panics, msg)
	s.mu.Unlock()
	raceOn()
}

func panicString(v interface{}) string {
	switch x := v.(type) {
	case error:
		return x.Error()
	case string:
		return x
	}
	return "non-error panic value"
}

// ---- token hand-off ----

// park gives the token back and waits to be scheduled again.
//
//go:norace
func (s *Sim) park(t *Task) {
	raceOff()
	s.yielded <- struct{}{}
	code := <-t.wake
	raceOn()
	if code == 2 {
		runtime.Goexit()
	}
}

//go:norace
func (s *Sim) checkPoison() {
	raceOff()
	s.mu.Lock()
	p := s.poisoned
	s.mu.Unlock()
	raceOn()
	if p {
		runtime.Goexit()
	}
}

// RequestAbort is called by the token holder to end the run (runaway evaluation, oracle decided).
//
//go:norace
func (s *Sim) RequestAbort(reason string) {
	t := s.cur
	if s.abortReq == "" {
		s.abortReq = reason
	}
	t.state = tsRunnable
	t.point = "abort"
	s.park(t)
}

//go:norace
func (s *Sim) siegeAdversaryAlive() bool {
	for _, t := range s.tasks {
		if t.ID == s.cfg.SiegeAdversary {
			return t.state != tsDone
		}
	}
	return false
}

// SetSiege turns the siege policy on (before Run).
func (s *Sim) SetSiege(victim, adversary *Task, point string) {
	s.cfg.Siege = true
	s.cfg.SiegeVictim = victim.ID
	s.cfg.SiegeAdversary = adversary.ID
	s.cfg.SiegePoint = point
}

// SiegeOpDone is called by the adversary's driver after each of its operations.
//
//go:norace
func (s *Sim) SiegeOpDone(t *Task) {
	if s.cfg.Siege {
		s.hookPointL(t, "siege.op-done", false, false)
	}
}

//go:norace
func (s *Sim) preempt(t *Task, point string) {
	s.Preempted.Add(point, 1)
	t.state = tsRunnable
	t.point = point
	s.park(t)
}

// hookPoint is a possible preemption point of the token holder; it reports whether the token
// was given away in between.
//
//go:norace
func (s *Sim) hookPoint(t *Task, point string, window bool) bool {
	return s.hookPointL(t, point, window, false)
}

// hookPointL: atLock says that the point is a lock acquisition (a preemption point even while the task
// holds other locks: that is where lock-order deadlocks are made).
//
//go:norace
func (s *Sim) hookPointL(t *Task, point string, window, atLock bool) bool {
	s.Points.Add(point, 1)
	held := t.lockDepth > 0 && !atLock
	if s.cfg.Siege && !held {
		if t.ID == s.cfg.SiegeVictim && point == s.cfg.SiegePoint && s.siegeAdversaryAlive() {
			s.siegeWant = s.cfg.SiegeAdversary
			s.SiegeRounds++
			s.preempt(t, point)
			return true
		}
		if t.ID == s.cfg.SiegeAdversary && point == "siege.op-done" {
			s.siegeWant = s.cfg.SiegeVictim
			s.preempt(t, point)
			return true
		}
	}
	if s.cfg.PCTDepth > 0 {
		s.hookCount++
		for _, cp := range s.pctPoints {
			if cp == s.hookCount {
				t.pendingDrop = true
			}
		}
		if t.pendingDrop && !held {
			t.pendingDrop = false
			t.prio = s.pctLow
			s.pctLow--
			s.preempt(t, point)
			return true
		}
		return false
	}
	if t.quantum > 0 {
		if t.quantum > 1 || !held {
			t.quantum--
		}
		if t.quantum == 0 {
			s.preempt(t, point)
			return true
		}
	}
	if held {
		return false
	}
	if window && s.cfg.WindowBias > 0 && s.tape.Chance(LaneSched, 1, s.cfg.WindowBias) {
		s.preempt(t, point)
		return true
	}
	return false
}

// ---- simhook.Handler ----

// SetFuse arms (n > 0) or disarms (n == 0) the calling task's fuse: fn is called at the n-th hook point the task
// passes from now on. Returns whether the previous fuse had fired.
//
//go:norace
func (t *Task) SetFuse(n int, fn context.CancelFunc) bool {
	fired := t.fuseFired
	t.fuse, t.fuseFn, t.fuseFired = n, fn, false
	return fired
}

//go:norace
func (s *Sim) fuseTick(t *Task) {
	if t.fuse > 0 {
		t.fuse--
		if t.fuse == 0 && t.fuseFn != nil {
			t.fuseFired = true
			t.fuseFn()
		}
	}
}

//go:norace
func (s *Sim) Step(ctx context.Context, ast, env interface{}) {
	// an aborted run unwinds every goroutine that still evaluates, token or not (deferred lisp code such
	// as a finally body would otherwise go on running with nobody scheduling it)
	s.checkPoison()
	t := s.cur
	if t == nil {
		return
	}
	t.Steps++
	s.TotalSteps++
	s.fuseTick(t)
	if s.OnStep != nil {
		s.OnStep.OnStep(s, t, ctx, ast, env)
	}
	if t.Steps > s.cfg.MaxSteps {
		s.RequestAbort("runaway")
	}
	if s.cfg.StepCost > 0 {
		c := s.cfg.StepCost
		if s.cfg.StepJitter > 1 {
			c *= time.Duration(1 + s.tape.Draw(LaneSched, s.cfg.StepJitter))
		}
		raceOff()
		time.Sleep(c)
		synctest.Wait() // let everything that fired at this same instant settle first
		raceOn()
	}
	s.hookPoint(t, "step", false)
}

//go:norace
func (s *Sim) Yield(point string, obj interface{}) {
	s.checkPoison()
	t := s.cur
	if t == nil {
		return
	}
	s.fuseTick(t)
	switch point {
	case "auto.trylock":
		// Code that uses TryLock behaves differently when somebody holds the lock at that instant. Tasks are
		// normally never preempted inside a critical section, so that state would never arise: now and then
		// park this task, let another one run up to its next lock acquisition, stop it there (holding the
		// lock) and come back.
		s.Points.Add(point, 1)
		if s.contender == nil && len(s.tasks) > 1 && s.tape.Chance(LaneSched, 1, 3) {
			s.contender = t
			s.contendGo = false
			s.preempt(t, point)
			s.contender = nil
			s.contendGo = false
			for _, c := range s.tasks {
				c.stopAtLock = false
			}
		}
		return
	case "auto.locked":
		t.lockDepth++
		if t.stopAtLock {
			t.stopAtLock = false
			s.contendGo = true
			s.preempt(t, "auto.locked#held-for-a-trylock")
		}
		return
	case "auto.unlocked":
		if t.lockDepth > 0 {
			t.lockDepth--
		}
	}
	isLoop := strings.HasPrefix(point, "auto.loop:")
	if isLoop || point == "atom.swap.retry" {
		// an iteration of a Go-level loop in the evaluator: it costs simulated time like an evaluation step
		// and is shown to the step hook, so that a loop that never reaches the evaluation loop again is
		// neither free nor invisible
		t.LoopIters++
		if s.OnStep != nil {
			s.OnStep.OnStep(s, t, nil, nil, nil)
		}
		if t.LoopIters > 50*s.cfg.MaxSteps {
			s.RequestAbort("runaway")
		}
		if s.cfg.StepCost > 0 && t.LoopIters%8 == 0 {
			raceOff()
			time.Sleep(s.cfg.StepCost)
			synctest.Wait()
			raceOn()
		}
		if isLoop {
			s.hookPoint(t, "auto.loop", false)
			return
		}
		// (a retry round of swap! is charged like a loop iteration and then treated as the named window it is)
	}
	for _, rp := range s.RecPoints {
		if rp == point {
			s.Rec("point", point, "", 0)
			s.Events[len(s.Events)-1].Obj = obj
		}
	}
	s.hookPoint(t, point, true)
}

//go:norace
func probe(ready func() bool) bool {
	raceOff()
	ok := ready()
	raceOn()
	return ok
}

//go:norace
func (s *Sim) Await(point string, obj interface{}, ready func() bool) {
	s.checkPoison()
	t := s.cur
	if t == nil {
		return
	}
	// sync.RWMutex: once a writer waits, new readers wait behind it (which is what makes recursive read
	// locking a deadlock). A waiting writer lives in the simulator, not in the mutex, so this is emulated:
	// a read-lock acquisition is not ready while some task waits for the write lock of the same mutex.
	if obj != nil && isReadLockPoint(point) {
		w := &rlockWait{s: s, obj: obj, ready: ready, self: t}
		ready = w.check
	}
	if probe(ready) {
		if !s.hookPointL(t, point, true, true) {
			return
		}
		if probe(ready) {
			return
		}
	} else {
		s.Points.Add(point, 1)
	}
	s.Points.Add(point+"#contended", 1)
	t.state = tsWaiting
	t.ready = ready
	t.point = point
	t.obj = obj
	syncRelease(&t.syncWord)
	s.park(t)
	t.ready = nil
	t.obj = nil
}

type rlockWait struct {
	s     *Sim
	obj   interface{}
	ready func() bool
	self  *Task
}

//go:norace
func (w *rlockWait) check() bool {
	for _, t := range w.s.tasks {
		if t != w.self && t.state == tsWaiting && t.obj == w.obj && isWriteLockPoint(t.point) {
			return false
		}
	}
	return w.ready()
}

func isReadLockPoint(p string) bool {
	return strings.Contains(p, "rlock")
}

func isWriteLockPoint(p string) bool {
	return strings.Contains(p, "lock") && !strings.Contains(p, "rlock")
}

// WaitUntil parks the token holder until pred (evaluated by the scheduler while nobody runs) holds.
//
//go:norace
func (s *Sim) WaitUntil(point string, pred func() bool) {
	t := s.cur
	if t == nil {
		return
	}
	s.checkPoison()
	s.Points.Add(point, 1)
	t.state = tsWaiting
	t.ready = pred
	t.point = point
	syncRelease(&t.syncWord)
	s.park(t)
	t.ready = nil
}

// WaitUntilBlockedOK is WaitUntil for predicates that a timer (context deadline) may satisfy: while
// such a task waits the run is not a deadlock, the clock may advance.
//
//go:norace
func (s *Sim) WaitUntilBlockedOK(point string, pred func() bool) {
	t := s.cur
	if t == nil {
		return
	}
	t.timed = true
	s.WaitUntil(point, pred)
	t.timed = false
}

//go:norace
func (s *Sim) BeforeBlock(ctx context.Context, point string, obj interface{}) interface{} {
	t := s.cur
	if t == nil {
		return nil
	}
	s.checkPoison()
	s.Points.Add(point, 1)
	// a select entered with two ready cases is resolved by the Go runtime's own RNG: such a run
	// cannot be replayed and is discarded (counted), never judged
	nready := 0
	if ctx != nil && ctx.Err() != nil {
		nready++
	}
	switch point {
	case "future.deref":
		if f, ok := obj.(*concurrent.Future); ok {
			nready += len(f.ErrChan) + len(f.ValChan)
		}
	case "sleep":
		if d, ok := obj.(time.Duration); ok {
			if d <= 0 {
				nready++
			} else if ctx != nil {
				if dl, ok := ctx.Deadline(); ok && dl.Equal(time.Now().Add(d)) {
					nready += 2
				}
			}
		}
	}
	if nready > 1 {
		s.Ambig++
	}
	raceOff()
	s.mu.Lock()
	t.state = tsBlocked
	t.point = point
	t.obj = obj
	t.blockedAt = time.Since(s.start)
	s.mu.Unlock()
	// from here on this goroutine does not hold the token: should the code between this hook and the
	// blocking operation call further hooks (a change may have put something there), they find no token
	// holder and do nothing; the scheduler picks nobody before this goroutine is durably blocked
	s.cur = nil
	s.yielded <- struct{}{}
	raceOn()
	return t
}

//go:norace
func (s *Sim) AfterBlock(handle interface{}, which string) {
	t, ok := handle.(*Task)
	if !ok || t == nil {
		return
	}
	raceOff()
	s.mu.Lock()
	p := s.poisoned
	t.state = tsRunnable
	t.wokeAt = time.Since(s.start)
	t.which = which
	t.point = t.point + "." + which
	s.mu.Unlock()
	if p {
		raceOn()
		runtime.Goexit()
	}
	select {
	case s.arrive <- struct{}{}:
	default:
	}
	code := <-t.wake
	raceOn()
	if code == 2 {
		runtime.Goexit()
	}
	s.BlockWakes.Add(t.point, 1)
	s.Rec("woke", t.point, strconv.FormatInt(int64(t.blockedAt), 10), int64(t.wokeAt))
}

//go:norace
func (s *Sim) Spawn(obj interface{}) interface{} {
	if s.cur == nil {
		return nil
	}
	s.checkPoison()
	s.Points.Add("spawn", 1)
	t := s.newTask("body-of-"+s.cur.Name, true)
	t.SpawnObj = obj
	return t
}

//go:norace
func (s *Sim) TaskStart(handle interface{}) {
	t, ok := handle.(*Task)
	if !ok || t == nil {
		return
	}
	raceOff()
	code := <-t.wake
	raceOn()
	t.started = true
	if code == 2 {
		runtime.Goexit()
	}
}

//go:norace
func (s *Sim) TaskEnd(handle interface{}) {
	t, ok := handle.(*Task)
	if !ok || t == nil {
		return
	}
	// one real, race-visible release per task end: the root acquires it once after the run and may
	// then read whatever the tasks wrote (results, logs) without a false report
	endRelease(&s.endSync)
	raceOff()
	s.mu.Lock()
	wasRunning := t.state == tsRunning
	if wasRunning && !s.poisoned && s.cur == t {
		s.Rec("task-end", t.Name, "", int64(t.ID))
		s.Events[len(s.Events)-1].Obj = t.SpawnObj
	}
	t.state = tsDone
	p := s.poisoned
	s.mu.Unlock()
	if wasRunning && !p {
		s.cur = nil
		s.yielded <- struct{}{}
	}
	raceOn()
}

//go:noinline
func syncRelease(p *int64) { atomic.StoreInt64(p, 1) }

//go:noinline
func syncAcquire(p *int64) int64 { return atomic.LoadInt64(p) }

//go:noinline
func endRelease(p *int64) { atomic.AddInt64(p, 1) }

//go:noinline
func endAcquire(p *int64) int64 { return atomic.LoadInt64(p) }

// ---- gates: harness-controlled completion instants ----

//go:norace
func (s *Sim) OpenGate(name string) {
	if !s.GateOpen(name) {
		s.gates = append(s.gates, name)
	}
}

//go:norace
func (s *Sim) GateOpen(name string) bool {
	for _, g := range s.gates {
		if g == name {
			return true
		}
	}
	return false
}

// ---- the scheduler loop (root goroutine of the bubble) ----

//go:norace
func (s *Sim) describeTasks() []string {
	var out []string
	for _, t := range s.tasks {
		if t.state == tsDone {
			continue
		}
		out = append(out, "task "+strconv.Itoa(t.ID)+" ("+t.Name+") "+stateNames[t.state]+" at "+t.point)
	}
	return out
}

// Run schedules until every task is done or the run is aborted.
//
//go:norace
func (s *Sim) Run() {
	// created with the detector's synchronisation handling on: the time package initialises process-wide
	// state behind a sync.Once the first time a timer is made
	s.horizon = time.After(s.cfg.Horizon)
	raceOff()
	var enabled []*Task
	for {
		synctest.Wait()
		if s.abortReq != "" {
			s.Aborted = s.abortReq
			s.abort()
			break
		}
		s.mu.Lock()
		alive, blocked := 0, 0
		enabled = enabled[:0]
		for _, t := range s.tasks {
			switch t.state {
			case tsDone:
				continue
			case tsRunnable:
				enabled = append(enabled, t)
			case tsWaiting:
				raceOn()
				syncAcquire(&t.syncWord)
				raceOff()
				if t.ready() {
					enabled = append(enabled, t)
				} else if t.timed {
					blocked++
				}
			case tsBlocked:
				blocked++
			}
			alive++
		}
		s.mu.Unlock()
		if alive == 0 {
			break
		}
		if len(enabled) == 0 {
			if blocked == 0 {
				s.Hang = &HangReport{Kind: "deadlock", Tasks: s.describeTasks(), Waits: s.describeWaits()}
				s.Aborted = "hang"
				s.abort()
				break
			}
			select {
			case <-s.arrive:
				continue
			case <-s.horizon:
				s.Hang = &HangReport{Kind: "horizon", Tasks: s.describeTasks(), Waits: s.describeWaits()}
				s.Aborted = "hang"
				s.abort()
			}
			if s.Aborted != "" {
				break
			}
			continue
		}
		if s.Decisions >= s.cfg.MaxDecisions {
			s.Aborted = "decision-limit"
			s.abort()
			break
		}
		cands := enabled
		if s.cfg.StarveID >= 0 && s.Decisions >= s.cfg.StarveFrom && s.Decisions < s.cfg.StarveFrom+s.cfg.StarveLen && len(enabled) > 1 {
			cands = cands[:0:0]
			for _, t := range enabled {
				if t.ID != s.cfg.StarveID {
					cands = append(cands, t)
				}
			}
			if len(cands) == 0 {
				cands = enabled
			}
		}
		var t *Task
		if s.cfg.Siege && s.siegeWant >= 0 {
			for _, c := range enabled {
				if c.ID == s.siegeWant {
					t = c
					t.quantum = 0
				}
			}
			s.siegeWant = -1
		}
		if t != nil {
			// the siege decides
		} else if s.contender != nil {
			// contention mode (see "auto.trylock")
			if s.contendGo {
				for _, c := range enabled {
					if c == s.contender {
						t = c
					}
				}
			} else {
				var others []*Task
				for _, c := range cands {
					if c != s.contender {
						others = append(others, c)
					}
				}
				if len(others) > 0 {
					t = others[s.tape.Draw(LaneSched, len(others))]
					t.stopAtLock = true
				}
			}
			if t == nil {
				// nobody else can run (or the contender is not enabled): give up on it
				for _, c := range s.tasks {
					c.stopAtLock = false
				}
				s.contendGo = true
				for _, c := range enabled {
					if c == s.contender {
						t = c
					}
				}
			}
			if t != nil {
				t.quantum = 0
			}
		}
		if t != nil {
			// chosen above
		} else if s.cfg.PCTDepth > 0 {
			t = cands[0]
			for _, c := range cands[1:] {
				if c.prio > t.prio {
					t = c
				}
			}
			t.quantum = 0
		} else {
			t = cands[s.tape.Draw(LaneSched, len(cands))]
			t.quantum = s.tape.Draw(LaneSched, s.cfg.Q)
		}
		s.Decisions++
		if s.Decisions%2000 == 0 {
			// a long run is not a stalled one (the watchdog of the worker looks at this counter)
			atomic.AddInt64(&progress, 1)
		}
		if t != s.last {
			s.Switches++
			s.ilHash = fnv(fnv(s.ilHash, strconv.Itoa(t.ID)), t.point)
		}
		s.evHash = fnv(fnv(fnv(s.evHash, "sched"), strconv.Itoa(t.ID)), t.point)
		if s.cfg.FullLog {
			s.Log = append(s.Log, "sched d="+strconv.Itoa(s.Decisions)+" t="+strconv.FormatInt(int64(s.Now()), 10)+" -> task "+strconv.Itoa(t.ID)+" ("+t.Name+") at "+t.point+" q="+strconv.Itoa(t.quantum))
		}
		s.last = t
		s.cur = t
		t.state = tsRunning
		t.wake <- 1
		select {
		case <-s.yielded:
		case <-s.horizon:
			// the token holder neither came back nor told the simulator that it blocks, and the whole
			// horizon of simulated time went by: it sits in a blocking operation nobody will ever complete
			// (a bare channel operation or timer wait the hooks do not cover). A wait that can end, ends
			// long before the horizon, because the clock jumps whenever everything is blocked.
			s.mu.Lock()
			t.state = tsBlocked
			t.point = "blocked-in-an-operation-unknown-to-the-simulator"
			s.mu.Unlock()
			s.Hang = &HangReport{Kind: "horizon", Tasks: s.describeTasks(), Waits: s.describeWaits()}
			s.Aborted = "hang"
			s.cur = nil
			s.abort()
		}
		if s.Aborted != "" {
			break
		}
		s.cur = nil
	}
	s.cur = nil
	raceOn()
	endAcquire(&s.endSync)
}

// abort poisons the run: every root context is cancelled and every parked task is resumed with
// the poison code, which makes it unwind with runtime.Goexit (deferred unlocks run; deferred
// lisp finally bodies hit the Step hook and exit again).
//
//go:norace
func (s *Sim) abort() {
	s.mu.Lock()
	s.poisoned = true
	s.mu.Unlock()
	// context's own locking must stay visible to the detector (the run is over: the edges this adds
	// between the scheduler and the tasks hide nothing that is still to be judged)
	raceOn()
	for _, c := range s.cancels {
		c()
	}
	raceOff()
	for round := 0; round < 1000; round++ {
		synctest.Wait()
		progress := false
		for i := 0; i < len(s.tasks); i++ {
			t := s.tasks[i]
			s.mu.Lock()
			st := t.state
			s.mu.Unlock()
			if st == tsRunnable || st == tsWaiting {
				s.mu.Lock()
				t.state = tsBlocked // being unwound; TaskEnd marks it done
				s.mu.Unlock()
				t.wake <- 2
				synctest.Wait()
				progress = true
			}
		}
		if !progress {
			break
		}
	}
	s.Leaked = 0
	for _, t := range s.tasks {
		if t.state != tsDone {
			s.Leaked++
		}
	}
}

// SortedCounts renders a counter map deterministically.
func SortedCounts(m map[string]int64) []string {
	keys := make([]string, 0, len(m))
	for k := range m {
		keys = append(keys, k)
	}
	sort.Strings(keys)
	out := make([]string, 0, len(keys))
	for _, k := range keys {
		out = append(out, k+"="+strconv.FormatInt(m[k], 10))
	}
	return out
}
