"""Per-property texts used by ./check when it writes evidence files."""

REAL_VS_STUB = {
    "real": ["mal.go READ/EVAL/PRINT/try/macroexpand", "env", "types", "reader", "printer", "lisperror", "lib/call",
             "lib/core (incl. sleep)", "lib/concurrent (atoms, futures)", "header-basic/coreextended/concurrent lisp libraries",
             "context and time from the Go standard library (time on the synctest fake clock)"],
    "stub": ["Go scheduler's choice of the running goroutine (seeded token scheduler)", "wall clock and timers (testing/synctest fake clock)",
             "embedding application (simulated caller threads)", "embedder-supplied Go builtins (trace!, h-begin/h-end, gate!, probe!)"],
    "not_run": ["repl", "debugger (terminal)", "command", "cmd/lisp", "lib/system"],
}

COMMON_ASSUMPTIONS = [
    "sampling, not proof: a clean batch is evidence for the schedules and faults explored",
    "interleavings are explored at hook granularity (evaluation steps, named windows, lock acquisitions, blocking points)",
    "the race oracle is the Go race detector (ThreadSanitizer, happens-before, bounded history) under a schedule whose hand-offs are hidden from it",
    "simulation runs under go1.26.8 (testing/synctest); the baseline suite under the default toolchain",
]

PROPS = {
    "C09": {
        "autoyield": ["lib/concurrent/concurrent.go"],
        "level": "exploration",
        "design_ref": "DESIGN.md §5.1",
        "technique": "deterministic simulation: seeded schedules over deref/reset!/swap! histories; porcupine linearizability + hang detection + race detector",
        "level_text": "Seeded search over interleavings of concurrent atom operations executed by the real interpreter under a token scheduler; "
                      "every recorded history is checked for linearizability against the sequential atom model (porcupine), hangs are decided by the "
                      "scheduler (no enabled task / horizon), data races by the Go race detector on the same tapes. Rare run shapes reach long histories: a siege schedule makes one swap! lose 40-2100 "
                      "compare-and-set rounds in a row, a flood fills memoize's table with up to 700 entries against concurrent lookups. Evidence, not proof: interleavings "
                      "are sampled at hook granularity.",
        "level_note": "Trusts the simulator (token scheduler, synctest clock), porcupine, ThreadSanitizer; operations inside a Go builtin or an env critical section are atomic in the simulation.",
        "rule": "one run = one seeded tape: 1-3 atoms holding lists of unique tokens, 2-5 simulated caller threads x 1-6 operations from 34 kinds (printing an atom is a read; one kind's update function starts a future that later swaps the same atom) (deref in both forms, reset!, "
                "swap! with pure, wide, builtin, extra-argument (1 and 3 extra arguments), always-failing, late-failing, value-dependent failing (bounded), type-error, atom-reading, "
                "self-reading and other-atom-updating/resetting update functions, swap! inside let, some wrapped in futures, plus gensym and memoize), every atom access - also the ones "
                "nested inside update functions - recorded as an operation; swap! through the builtin update with a callback reading the atom being swapped; fault: one operation in eight runs under a context of its own that is "
                "cancelled at a drawn hook point inside it (an operation that ended with that timeout error is placed by whether anybody saw its unique token); memoize histories additionally require that a call invoked after an earlier call with the same argument returned "
                "does not compute again. Two rare run shapes for long histories: siege (1 run in 120: the scheduler parks one swap! in every read/apply window and lets a second thread complete one reset! each time, 40-2100 rounds in a row; "
                "the whole history goes to porcupine) and flood (1 run in 100: 100-700 memoized calls with distinct arguments against concurrent lookups of seven small ones; values only are judged). Scheduling: seeded quantum walk, PCT (depth 1-3) or starvation, at evaluation steps, statement-level yields "
                "inserted into lib/concurrent/concurrent.go, lock acquisitions (with RWMutex writer preference emulated) and the swap! read/apply/retry windows. "
                "non-trivial = at least 2 tasks, more than one token switch and at least one preemption inside a named or auto-inserted window; "
                "distinct = distinct hash of the sequence of (task, hook point) pairs at which the token changed hands",
        "assumptions": COMMON_ASSUMPTIONS + ["an update function that updates the very atom being swapped is excluded (as in the property)"],
        "must_hit": ["preempt:atom.swap.read", "preempt:atom.swap.applied", "point:atom.swap.retry", "porcupine_ok", "fault:operation-context-cancelled", "cancelled_operation_took_effect", "cancelled_operation_without_effect",
                     "programs:siege", "reach:swap-lost-1000-rounds-in-a-row", "programs:memoize-flood", "reach:memoize-table-above-512-entries"],
        "race": True, "race_share": 0.4,
    },
    "C10": {
        "autoyield": ["lib/concurrent/concurrent.go"],
        "level": "exploration",
        "design_ref": "DESIGN.md §5.2",
        "technique": "deterministic simulation: seeded schedules of body completion vs deref/status/cancel; history obligations O1-O6 + race detector",
        "level_text": "Seeded search over interleavings of a future's body (completing at once, at scheduler-chosen gates, at simulated instants, "
                      "normally or by throwing, honouring or ignoring cancellation) with concurrent deref / future-done? / future-cancelled? / future-cancel "
                      "calls with and without deadlines on the fake clock; the recorded history is checked against obligations phrased over observable events "
                      "and event stamps only, data races by the Go race detector on the same tapes.",
        "level_note": "Trusts the simulator, the synctest clock and ThreadSanitizer; 'completed' is defined from observable events only (body thread ended, an outcome-returning deref or a true future-done? returned earlier).",
        "rule": "one run = one seeded tape: a creator thread defines 1-2 futures (body: value, nil, false, collection, throw, failing builtin, context-aware gate, context-ignoring gate, "
                "gate then throw, sleep, busy loop, future-call of a fn, nested future, deref of the other future, bodies that wait or sleep inside a try whose handler returns, bodies whose error has passed through two nested futures; in a third of the two-future runs the second future is started by the first "
                "one's body and outlives it), 1-4 caller threads x 1-5 operations (deref with/without deadline, future-done?, future-cancelled?, future-cancel, naps, printing the future), a gatekeeper opening "
                "gates at scheduler-chosen instants, now and then 130-170 futures blocked at a gate are created first, in a quarter of the runs a deadline on the creator's context, sometimes one that has already passed when the future is created; code that "
                "uses TryLock is run in contention mode (another thread is parked holding the lock when the attempt is made); step cost 0, 1us or 50us. Oracles: obligations O1-O6 over the history, a deref's wake-up "
                "instant against its deadline, and the whole status history against a sequential specification with porcupine. "
                "non-trivial = at least 3 tasks, more than two token switches and at least one preemption inside a future.* window or one wake-up from a real blocking deref/sleep; "
                "distinct = distinct hash of the sequence of (task, hook point) pairs at which the token changed hands",
        "assumptions": COMMON_ASSUMPTIONS + ["a second future-cancel on an already cancelled future may return either value (the statement does not say)",
                                             "the word 'timeout' in an error message identifies timeout-kind errors"],
        "must_hit": ["preempt:future.delivered", "preempt:future.body-returned", "preempt:future.cancel.enter", "preempt:future.done-set", "wake:future.deref.ctx", "wake:future.deref.val", "wake:future.deref.err", "fault:creator-deadline", "fault:future-created-under-ended-context"],
        "race": True, "race_share": 0.4,
    },
    "C11": {
        "autoyield": ["lib/concurrent/concurrent.go", "env/env.go"],
        "level": "exploration",
        "design_ref": "DESIGN.md §5.3",
        "technique": "deterministic simulation: N programs on one environment under seeded schedules; solo-run refinement + leak probes + definition atomicity + race detector",
        "level_text": "Seeded search over interleavings (preemption at any evaluation step, late future bodies, starvation) of 2-5 template programs plus a writer, readers "
                      "and leak probes on one shared, library-preloaded environment. Each program's result and trace is compared with its solo run in an identically "
                      "prepared fresh environment (refinement), probes check that no local name is visible at top level, readers check all-or-nothing monotone visibility "
                      "of a redefined global, and the Go race detector runs on the same tapes for the no-data-race clause.",
        "level_note": "Trusts the simulator and ThreadSanitizer; the solo run is the reference (it is the same interpreter); env critical sections are atomic in the simulation, their absence is a matter for the race oracle.",
        "rule": "one run = one seeded tape: 2-5 programs of 2-5 fragments drawn from 71 templates (let, shadowing, tail/non-tail recursion under thread-specific global names, "
                "closures over local atoms, own and library macros, memoize, try/catch, defs, def inside thunks and future bodies, derivation from shared vector/map/list/closure/macro, "
                "map/apply/reduce/update-in, futures incl. ones started in a non-final let binding, gensym names used as private globals, a local helper defined after a future was started, rest lists of variadic callbacks that outlive map, memoized closures with the "
                "same text and different captured values in every thread, a global redefined from its own value, shared atoms printed with str/pr-str, an atom of the program's own printed while a future of the program updates it, futures cancelled in the middle of a computation, tail loops whose turns start futures or make closures, first calls of shared functions whose bodies contain macro calls, keywords made at run time, a macro whose expansion closes over its parameter, the shared macro used while another thread defines it again), "
                "same local names in every thread with thread-specific values; optional writer redefining g through 2-6 distinct structured values with 1-2 readers; optional prober "
                "reading local and temporary names at top level. Statement-level yields in lib/concurrent/concurrent.go and env/env.go. "
                "non-trivial = at least 2 tasks and at least 4 token switches; distinct = distinct hash of the (task, hook point) switch sequence",
        "assumptions": COMMON_ASSUMPTIONS + ["generated programs never evaluate non-constant map literals (Go map iteration order)"],
        "must_hit": ["preempt:step", "point:spawn", "wake:future.deref.val"],
        "race": True, "race_share": 0.5,
    },
    "C02": {
        "level": "exploration",
        "design_ref": "DESIGN.md §5.5",
        "technique": "deterministic simulation: operation histories on a value pool shared by simulated caller threads; snapshot oracle after every step + race detector",
        "level_text": "Seeded operation histories (length up to 40, fan-out forced) of the collection-producing operations named in the property, applied to values produced earlier in "
                      "the same history; every earlier value is re-read through the environment and compared with its canonical snapshot after every operation. Half of the runs are "
                      "sequential (empty schedule space: the honest scope note of DESIGN.md §5.5 applies), half run 2-4 simulated caller threads that extend the same parents under "
                      "a seeded schedule, with the Go race detector on the same tapes.",
        "level_note": "Trusts the simulator, the canonical printer and ThreadSanitizer. No model of what an operation should return is used (that is C13).",
        "rule": "one run = one seeded tape: 25 seed values (reader-built vector and quoted list, conj/range results with spare capacity, nested maps and vectors, sets, vec of a quoted list, "
                "empty vector and list, drained vectors that keep capacity) and 3-40 operations from 87 kinds (conj, concat incl. empty leading arguments, cons, assoc, dissoc incl. several keys "
                "with absent ones, subvec, rest, vec, seq, take/drop families, merge, rename-keys, with-meta, assoc-in/update/update-in through maps, vectors and mixed nesting, apply, map, "
                "quasiquote splices, closures, macros, catch/let variables named like pool values, variadic callbacks that retain their rest list inside map/apply/reduce, closures made under apply/map/swap! that outlive the call, error objects wrapping a pool map turned into "
                "hash-maps, assoc-in/update-in paths ending in empty maps that are values of their own, binary values from unbase64, functions defined with a pool map as metadata, json-decode with pool values as prototype or as binary document, merge with a smaller left operand, values taken out of other collections, keys/vals, constructors through apply, error objects wrapping pool sequences rendered as text), parents chosen with a bias "
                "to re-extend the previous parent. Oracles: snapshot of every value re-read after every operation; prefix stability of snapshots taken inside callbacks; race detector. "
                "non-trivial = some parent extended at least twice; distinct = distinct (operation sequence, interleaving) hash",
        "assumptions": COMMON_ASSUMPTIONS + ["registration-time mutation of _PACKAGES_ by call.Call is outside the statement (not a builtin, special form, macro expansion or splice)"],
        "must_hit": ["form:threads=1", "form:threads=2", "snapshot_comparisons", "retained_value_comparisons"],
        "race": True, "race_share": 0.35,
    },
    "C07": {
        "autoyield": ["lib/concurrent/concurrent.go", "env/env.go", "loops:mal.go", "loops:lib/core/core.go", "loops:types/types.go"],
        "level": "exploration",
        "design_ref": "DESIGN.md §5.4",
        "technique": "deterministic simulation: fake clock, cancellation injected at any step or instant into generated non-terminating programs; bounded-steps-after-cancel invariant",
        "level_text": "Seeded search over (program shape, cancellation kind, cancellation instant): non-terminating programs from a grammar covering every construct the statement "
                      "names run on the synctest fake clock with a simulated cost per evaluation step and per iteration of a Go-level loop in mal.go, lib/core and types; the context ends by deadline, by cancel() at a drawn step, through a parent "
                      "context or before entry. Invariant: at most B = 200 + 20*(AST nodes) evaluation steps of the calling thread and (B+10) step costs of simulated time after "
                      "the context ended; try-free programs return a timeout error; a timeout inside a try body under a deadline is caught and the handler runs once; in single-threaded runs the heap "
                      "allocation between the end of the context and EVAL's return stays within 2 MiB + 2 KiB per step after + 256 B per step before (work that costs no evaluation step).",
        "level_note": "Trusts the simulator and the synctest clock. Allocation is read from runtime.MemStats (process-wide, hence judged only when the calling thread is the run's only thread). Builtins see small data only. A future body that keeps running after EVAL returned is reported as a probe, not judged.",
        "rule": "one run = one seeded tape: a program drawn from the grammar (24 endless leaves: tail / non-tail / macro recursion, cond, and/or, ->, loops whose iterations mention only symbols "
                "and constants, sleeping loop, long sleep, swap! loop, apply, deref of a body ignoring cancellation, deref of a pending future shared with a body started by an earlier evaluation "
                "under an unrelated context; wrapped in map/reduce/swap!/update callbacks, eval, future deref, do/let/if, try/catch/finally nests to depth 4 whose handlers and finally bodies loop, "
                "sleep, return, rethrow; plus handler and finally probes, programs that dereference cancelled futures, bursts of ~300 futures, non-tail recursions that are thousands of frames "
                "deep when the context ends, swap! through builtins whose callback reads the atom, nested handler probes (the inner handler runs, the outer one does not), handler probes in tail position after a prefix that uses up part of the deadline, status calls on finished futures, handler probes evaluated by a future's body, a swap! whose install attempts fail for ever, bodies that fail at "
                "once with an ordinary error so that it is the handler the cancellation cuts short, and def/defmacro forms whose value expression never finishes), a step cost of 1us..1ms with optional jitter, and a cancellation (kind x instant, log-uniform up to ~32k steps). "
                "non-trivial = the context ended while the program was running; distinct = distinct (program text, cancellation kind, instant, interleaving) hash",
        "assumptions": COMMON_ASSUMPTIONS + ["the word 'timeout' in the error message identifies a timeout error"],
        "must_hit": ["fault:deadline", "fault:cancel-at-step", "fault:parent-cancel-at-step", "fault:ended-at-entry", "fault:deadline-parent", "wake:sleep.ctx", "wake:future.deref.ctx", "handler_probe_ok", "shape:try", "shape:macro", "shape:tail-noargs", "shape:deref-shared-pending", "shape:eval", "shape:background-env-writer", "finally_probe_ok", "probe:deep-dive-unwound-after-cancellation", "alloc_after_cancel_judged", "shape:nested-handler-probe", "shape:handler-cut-short"],
        "race": False,
    },
    "C03": {
        "level": "fault_enumeration",
        "design_ref": "DESIGN.md §5.6",
        "technique": "deterministic simulation with fault injection: every single builtin-failure plan (site x kind) of generated try-nests, against a reference model of the try semantics",
        "level_text": "For every generated try/catch/finally nest the fault space of builtin failures is enumerated completely at the single-fault level (each probe site x "
                      "{error return, %w-wrapped error, panic with an error, panic with a non-error value, lisp value thrown from Go}) plus the fault-free plan and drawn "
                      "multi-fault plans; the interpreter's result, thrown object (lisp values structurally, Go errors via errors.Is) and ordered trace are compared with a "
                      "small reference interpreter of exactly the semantics in the statement. Programs are sampled (seeded), plans per program are exhaustive.",
        "level_note": "Trusts the reference model (about 80 lines) and the canonical printer. Faults inside finally bodies are not generated (the statement does not say what they do). Single-threaded: no race binary.",
        "rule": "one run = one seeded try-nest program (depth <= 5, up to ~60 nodes: probe!/probe-raw! sites, macro-expansion-time probes and throws, trace! effects incl. the value the catch "
                "symbol resolves to in handlers, finally bodies and after the form, throws of 24 kinds of values including code-looking lists and symbols and collections that contain them, throws raised inside a swap! update function,  body-less try forms, calls through 1-3 "
                "function levels, apply, a Go builtin that calls back and wraps the callback's error in an error of its own, callbacks of update / update-in / map / swap! / reduce, closures that escape a handler, and now and then one evaluation that catches ten thousand failures in a row, the value expression of a macro definition, user and library macros, let shadowing the catch symbol) executed under the fault-free plan, EVERY single-fault plan (site x {error, %w-wrapped error, "
                "panic with an error - for raw builtins where an enclosing try body recovers it -, panic with a non-error value, lisp value thrown from Go, budget timeout: the probe waits on the "
                "fake clock until the context it was handed ends}) and 2 (thorough: 12) drawn multi-fault plans, each under a simulated deadline that is a knob of the run: one hour, or 40 / 120 / 250 years away (the far-away runs get no budget-timeout faults: all plans of a run share one fake clock, which cannot pass the year 2262). evaluations counts runs (programs); "
                "plans_executed counts executions. non-trivial = the program has at least one probe site and a fault actually fired; distinct = distinct program text",
        "assumptions": COMMON_ASSUMPTIONS[:1] + ["a raw types.Func that panics is outside the statement (no recovery promised)", "a panic with a non-error value inside a lib/call builtin is treated as a throw of that value"],
        "must_hit": ["fault:err", "fault:err-wrapped", "fault:panic-err", "fault:panic-val", "fault:throw-val", "plans_with_fault", "knob:deadline-decades-away"],
        "race": False,
    },
    "C18": {
        "level": "exploration",
        "design_ref": "DESIGN.md §5.7",
        "technique": "deterministic simulation of the debugger as an adversarial peer: seeded and enumerated Stepper command tapes vs. the stepper-less reference run",
        "level_text": "The Stepper callback is an in-run seam driven by a seeded command tape (no-op / next / step in / step out at every consultation); programs are C03 try-nests with "
                      "an injected builtin failure and template programs with closures, bounded recursion, user and library macros. Result, error and trace are compared with the "
                      "same program run without a stepper in an identically prepared environment; every (form, scope) handed to the callback is compared with the evaluation step "
                      "that follows. Now and then all command sequences up to length 4 (thorough: 5) are enumerated for the program at hand.",
        "level_note": "Trusts the stepper-less run as reference (same interpreter). No scheduler and no clock are involved: the simulated party is the debugger. Single-threaded: no race binary.",
        "rule": "one run = one seeded program (try-nest with 0-1 injected builtin failure - including the budget timeout of a try body under a one-hour simulated deadline and the cancellation of the whole evaluation by the host -, or 1-3 of 80 templates incl. "
                "error-inspecting handlers, uncaught errors, map/vector literals with one effect, forms longer than ten items, evaluator panics that cross map/apply/reduce/swap! before they reach try, a "
                "tail loop of ~4000 iterations, literal nodes evaluated several times, let init forms reading the binding they shadow, quasiquote templates with unquotes inside vectors) x one seeded command tape of up to 120 commands with a drawn bias and tail command, x one run under the debugger package's own engine in "
                "its headless run-and-trace mode, followed by a stepper-less re-run of the same source; about one run in twelve additionally enumerates every command sequence of length <= 4 "
                "(thorough: 5). Compared: result, error text with position, trace, and every (form, scope) handed to the callback with the evaluation step that follows. "
                "evaluations counts runs; stepper_runs counts executions with a scripted stepper. "
                "non-trivial = the callback was consulted and at least one command was drawn; distinct = distinct (program, fault plan, command tape) hash",
        "assumptions": COMMON_ASSUMPTIONS[:1] + ["ANSWER:/ERROR: lines printed by the evaluator on 'next' are debugger output, not program effects (stdout is redirected)", "programs terminate within the host stack (non-tail recursion depth <= 50)"],
        "must_hit": ["fault:stepper-next", "fault:stepper-in", "fault:stepper-out", "exhaustive_prefix_enumerations", "shipped_debugger_runs"],
        "race": False,
    },
}
