#!/bin/bash
# usage: run_mutants_of.sh <PROP> [<PROP>...]  - the regression of run_all_mutants.sh restricted to the changes of the given properties
cd "$(dirname "$0")/.."
for prop in "$@"; do
for d in seeded/$prop-w*/; do
  id=$(basename "$d")
  [ -f "$d/patch.diff" ] || continue
  out=$(MUT_LINES=2 tools/try_mutant.sh "$d/patch.diff" quick "$prop" 2>&1)
  rc=$(echo "$out" | grep -o 'exit=[0-9]*' | head -1 | cut -d= -f2)
  case "$rc" in 1) v=CAUGHT;; 0) v=MISSED;; *) v=TROUBLE;; esac
  clauses=$(echo "$out" | grep -o 'clause=[^ ]*' | sort -u | tr '\n' ' ')
  echo "$id $v $clauses"
done
done
