package lispsim

// C18 — installing a debugger stepper does not change what programs compute.
//
// The simulated party is the debugger: lisp.Stepper is a seam through which an outside agent
// answers during the run; its answers drive process-wide flags. A seeded command tape (no-op /
// next / step in / step out at every consultation) plays the role of the fault schedule. Each
// program (C03 try-nests with an injected builtin failure, closures, bounded recursion, user and
// library macros) runs twice in identically prepared fresh environments, without and with the
// stepper; result, error and trace must be identical, and every (form, scope) handed to the
// callback must be the (form, scope) of the evaluation step that follows immediately.

import (
	"context"
	"io"
	"os"
	"reflect"
	"strconv"
	"strings"
	"time"
	"unsafe"

	"github.com/fatih/color"
	"github.com/jig/lisp"
	"github.com/jig/lisp/debugger"
	"github.com/jig/lisp/debuggertypes"
	"github.com/jig/lisp/lib/call"
	"github.com/jig/lisp/simhook"
	"github.com/jig/lisp/types"
)

type c18 struct{}

func (c18) ID() string { return "C18" }

func init() { register(c18{}) }

var c18Templates = []string{
	`(let [a N b (+ a 1) c (* b 2)] (do (trace! (list a b c)) (+ a b c)))`,
	`(do (def fact (fn [n acc] (if (= n 0) acc (fact (- n 1) (+ acc n N))))) (fact 12 0))`,
	`(do (def sum (fn [n] (if (= n 0) N (+ n (sum (- n 1)))))) (sum 15))`,
	`(let [c (atom N) f (fn [k] (swap! c (fn [v] (+ v k))))] (do (f 1) (f 2) (trace! @c) @c))`,
	`(do (def mk (fn [a] (fn [b] (+ a b N)))) (let [f (mk 1) r (mk 2)] (list (f 10) (r 10))))`,
	`(do (defmacro unless (fn [c a b] (list 'if c b a))) (unless false (trace! N) (trace! :no)))`,
	"(do (defmacro twice (fn [x] `(let [v ~x] (list v v)))) (twice (trace! N)))",
	`(cond (> N 1000) :huge (> N 5) (list :big (trace! N)) true :small)`,
	`(list (and 1 (trace! N)) (or nil N) (and N nil) (or false nil))`,
	`(-> N (+ 1) (* 2) (trace!))`,
	`(try (throw N) (catch e (do (trace! (list :caught e)) (+ e 1))))`,
	`(try (nth [1 2] N) (catch e :caught) (finally (trace! :fin)))`,
	`(try (try (throw (list :t N)) (catch e (throw (list :again e))) (finally (trace! :f1))) (catch e e) (finally (trace! :f2)))`,
	`(map (fn [x] (trace! (+ x N))) [1 2 3])`,
	`(reduce (fn [a x] (+ a (trace! x))) 0 [1 2 N])`,
	`(apply (fn [a b] (do (trace! a) (list b a))) (list N 1))`,
	"(let [xs (list 1 2 N)] `(0 ~@xs ~(trace! :q)))",
	`(do (def ev? (fn [n] (if (= n 0) true (od? (- n 1))))) (def od? (fn [n] (if (= n 0) false (ev? (- n 1))))) (ev? N))`,
	`((fn [& xs] (do (trace! (count xs)) xs)) 1 N 3)`,
	`(do (do (do (trace! 1) (do (trace! 2))) (trace! 3)) N)`,
	`(if (trace! false) (trace! :then) (trace! N))`,
	`(do (def x N) (def x (+ x 1)) x)`,
	`(let [f (fn [g n] (if (= n 0) :done (g g (- n 1))))] (f f N))`,
	// errors raised by the evaluator itself or by builtins, caught and inspected, or left uncaught
	`(try (let 5 N) (catch e (str "caught: " e)))`,
	`(try (do (trace! N) (let 5 1)) (catch e (list (type? e) (str e))))`,
	`(try (undefined-fn N) (catch e (list (type? e) (str e))))`,
	`(try (nth [1 2] N) (catch e (list (type? e) (str e))))`,
	`(try ((fn [a b] a) N) (catch e (list (type? e) (str e))))`,
	`(try (throw {:code N}) (catch e (list (type? e) e)))`,
	`(do (trace! :before) (undefined-fn N))`,
	`(do (trace! :before) (throw (list :uncaught N)))`,
	`(let [a N] (do (trace! a) (nth [1 2] a)))`,
	// map and vector literals with non-constant values in tail position (one effect per literal: Go's map
	// iteration order must not matter)
	`(do (trace! 1) {:n (trace! N)})`,
	`(let [a N] {:a a :b (+ a 1) :c [a (* a 2)]})`,
	`(if true {:k (trace! N)} nil)`,
	`((fn [x] {:v (+ x N) :w [x]}) 2)`,
	`(try (throw N) (catch e {:caught (trace! e)}))`,
	`(do (trace! 0) [(trace! N) (+ N 1)])`,
	// a malformed let in tail position, uncaught: the error's position is part of the error
	`(do (trace! N) (let 5 1))`,
	`(if true (let 5 N) 0)`,
	`((fn [a] (let 5 a)) N)`,
	`(let [a N] (do (trace! a) (let (1 2) a)))`,
	// forms that leave out an optional operand
	`((fn [a b] (if a)) N 2)`,
	`(do (trace! N) (if true))`,
	`(let [x N] (if x))`,
	`((fn [a b] (do (trace! b) (if false))) 1 N)`,
	`(list (if false N) (if nil N))`,
	// a Go panic raised by the evaluator itself, crossing a callback builtin before it reaches try
	`(try (map (fn [x] (fn)) [N]) (catch e (str e)))`,
	`(try (apply (fn [] ((fn [&] 1))) ()) (catch e (list (type? e) (str e))))`,
	`(try (reduce (fn [a x] (defmacro mbad 1)) 0 [N]) (catch e (str e)))`,
	`(try (swap! (atom N) (fn [v] (fn))) (catch e (str e)))`,
	// a tail loop far deeper than the recursion of the other programs
	`(do (def sum-to (fn [n acc] (if (= n 0) acc (sum-to (- n 1) (+ acc n))))) (sum-to (+ 4000 N) 0))`,
	// the same literal node evaluated several times with different values
	`(do (def mk (fn [x] {:x x :sq (* x x)})) (list (mk 1) (mk 2) (mk N)))`,
	`(map (fn [x] {:v x :w [x (+ x N)]}) [1 2 3])`,
	`(do (def mkv (fn [x] [x (* x 2) {:s (str x)}])) (list (mkv 1) (mkv N) (mkv 3)))`,
	`(reduce (fn [acc x] (conj acc {:i x :t (trace! (+ x N))})) [] [1 2 3])`,
	// a let whose init forms read the outer binding of the name they are about to shadow
	`(let [limit N] (let [limit (if limit (+ limit 1) 100) lim2 (* limit 2)] (list limit lim2)))`,
	`(do (def lv N) ((fn [lv] (let [lv (if lv lv 7) w (trace! lv)] (list lv w))) 5))`,
	`(let [x 1] (let [x (+ x N) x (* x 2)] (try (let [x (throw x)] x) (catch x (list :caught x)))))`,
	// quasiquote templates whose unquotes sit inside vectors and maps
	`(let [a N c (list 1 2)] (quasiquote [(unquote a) (splice-unquote c)]))`,
	`(let [a N] (quasiquote (pair [(unquote a) (unquote a)] {:k [(unquote a)]})))`,
	`(do (defmacro with-tmp (fn [v] (quasiquote (let [tmp (unquote v)] (list tmp tmp))))) (with-tmp (+ N 1)))`,
	// the host cancels the evaluation inside a try body; the handler's value is not a call
	`(try (host-cancel!) (catch e :late))`,
	`(try (host-cancel!) (catch e e))`,
	`((fn [a] (try (do (trace! :in-body) (host-cancel!)) (catch e a))) N)`,
	`(do (trace! 1) (try (host-cancel!) (catch e N) (finally (trace! :fin))))`,
	`(let [x N] (try (host-cancel!) (catch e x)))`,
	// a macro whose expansion is itself the failing call; nothing catches the error
	`(do (defmacro fail-with (fn [msg] (list 'throw msg))) (fail-with N))`,
	`(do (defmacro m-div (fn [a b] (list '/ a b))) (trace! :before) (m-div N 0))`,
	`(do (defmacro m-nth (fn [v i] (quasiquote (nth (unquote v) (unquote i))))) (list (m-nth [1 2 3] 1) (m-nth [1 2] N)))`,
	`(do (defmacro m-call (fn [f] (list f))) (m-call undefined-fn-N))`,
	// metadata of functions bound with def; impure macros expanded several times at one call site
	`(do (def idf (fn [x] x)) (list (meta idf) (meta (fn [y] y)) (idf N)))`,
	`(do (def tagged (with-meta (fn [x] x) {:t N})) (def plain (fn [x] x)) (map (fn [g] (if (meta g) :tagged :plain)) (list plain tagged)))`,
	`(do (def cnt (atom 0)) (defmacro m-count (fn [] (swap! cnt (fn [v] (+ v 1))))) (def call-it (fn [] (m-count))) (list (call-it) (call-it) (call-it) (deref cnt) N))`,
	`(do (defmacro m-a (fn [x] (list '+ x 1))) (defmacro m-b (fn [x] (list '* x 2))) (def use (fn [m x] (eval (list m x)))) (list (use 'm-a N) (use 'm-b N) (use 'm-a 1)))`,
	`(do (defmacro m-neg (fn [x] x)) (def f1 (fn [] (m-neg N))) (def r1 (f1)) (defmacro m-neg (fn [x] (list '- 0 x))) (list r1 (f1)))`,
	`(do (defmacro m-one (fn [x] (list 'quote x))) (list (macroexpand (m-one (not-a-function N))) (m-one (also-not N))))`,
	// forms with more than ten items
	`(str 1 2 3 4 5 6 7 8 9 10 N 12)`,
	`(do (trace! 1) (trace! 2) (trace! 3) (trace! 4) (trace! 5) (trace! 6) (trace! 7) (trace! 8) (trace! 9) (trace! 10) (trace! 11) N)`,
	`((fn [& xs] (count xs)) 1 2 3 4 5 6 7 8 9 10 11 N)`,
	`(list 1 2 3 4 5 6 7 8 9 10 (trace! N) 12 13)`,
	`(try (trace! 1) (trace! 2) (trace! 3) (trace! 4) (trace! 5) (trace! 6) (trace! 7) (trace! 8) (trace! 9) (throw N) (catch e (trace! (list :caught e))) (finally (trace! :fin)))`,
}

var c18Cmds = []debuggertypes.Command{debuggertypes.NoOp, debuggertypes.Next, debuggertypes.In, debuggertypes.Out}
var c18CmdNames = []string{"noop", "next", "in", "out"}

// stepSpy is a minimal simhook.Handler: it only looks at evaluation steps, to compare them with
// what the stepper callback was handed just before.
type stepSpy struct {
	budget     int64 // evaluation steps after which the run is cancelled (0: no limit)
	cancel     context.CancelFunc
	runaway    bool
	pendingAst string
	pendingEnv interface{}
	pending    bool
	mismatch   string
	steps      int64
	consults   int64
}

func (sp *stepSpy) Step(ctx context.Context, ast, env interface{}) {
	sp.steps++
	if sp.budget > 0 && sp.steps > sp.budget && !sp.runaway {
		// a program that does not terminate (a change to the evaluator can make one): stop it through
		// its context instead of stalling the worker
		sp.runaway = true
		if sp.cancel != nil {
			sp.cancel()
		}
	}
	if sp.pending {
		sp.pending = false
		if a := canon(ast); a != sp.pendingAst || env != sp.pendingEnv {
			if sp.mismatch == "" {
				sp.mismatch = "the callback was handed " + sp.pendingAst + " but the evaluation step that followed evaluates " + a
				if a == sp.pendingAst {
					sp.mismatch = "the callback was handed " + a + " with a scope object that is not the one it is evaluated in"
				}
			}
		}
	}
}
func (sp *stepSpy) Yield(string, interface{})                                    {}
func (sp *stepSpy) Await(string, interface{}, func() bool)                       {}
func (sp *stepSpy) BeforeBlock(context.Context, string, interface{}) interface{} { return nil }
func (sp *stepSpy) AfterBlock(interface{}, string)                               {}
func (sp *stepSpy) Spawn(interface{}) interface{}                                { return nil }
func (sp *stepSpy) TaskStart(interface{})                                        {}
func (sp *stepSpy) TaskEnd(interface{})                                          {}
func (sp *stepSpy) TaskPanic(interface{}, interface{})                           {}

type c18Exec struct {
	runaway bool
	result  string
	errText string // err.Error() of the returned error: message and position
	trace   []string
	panic   string
}

// c18Once runs src in a fresh environment, with the stepper answering cmd(i) at its i-th consultation
// (nil: no stepper).
func c18Once(ast func() types.MalType, plan c03Plan, cmd func(i int) debuggertypes.Command, spy *stepSpy) c18Exec {
	return c18OnceWith(ast, plan, cmd, spy, false)
}

// bodyOnly: probe sites of the current program at which a budget-timeout fault may be injected (set by Run).
var c18BodyOnly map[int]bool

func c18OnceWith(ast func() types.MalType, plan c03Plan, cmd func(i int) debuggertypes.Command, spy *stepSpy, shipped bool) c18Exec {
	bodyOnly := c18BodyOnly
	if bodyOnly == nil {
		bodyOnly = map[int]bool{}
	}
	s := NewSim(&Tape{Replay: true}, SimCfg{StarveID: -1})
	h := &Harness{S: s, Canon: canon03}
	e := NewEnv()
	h.Install(e)
	rt := &c03Rt{fired: map[string]int{}, plan: plan, rawPanicOK: map[int]bool{}, bodyOnly: bodyOnly}
	call.CallOverrideFN(e, "probe!", func(ctx context.Context, i int) (types.MalType, error) { return rt.probe(ctx, i, false) })
	e.Set(types.Symbol{Val: "probe-raw!"}, types.Func{Fn: func(ctx context.Context, a []types.MalType) (types.MalType, error) {
		return rt.probe(ctx, a[0].(int), true)
	}})
	call.CallOverrideFN(e, "probe-e!", func(ctx context.Context, i int) error { _, err := rt.probe(ctx, i, false); return err })
	c03InstallExtras(e)
	if _, err := lisp.EVAL(context.Background(), mustRead(c03Setup), e); err != nil {
		panic("c18 setup: " + err.Error())
	}
	var ex c18Exec
	lisp.SimResetStepper()
	if spy == nil {
		spy = &stepSpy{}
	}
	// under a deadline of one simulated hour: nothing consumes simulated time except a budget-timeout fault
	// (a probe that waits until the context it was handed ends), which makes the try form's share of the
	// deadline observable
	runCtx, runCancel := context.WithTimeout(context.Background(), time.Hour)
	defer runCancel()
	spy.budget, spy.cancel = 300000, runCancel
	rt.hostCancel = runCancel
	// (host-cancel!): the embedding program cancels the whole evaluation while this builtin runs
	e.Set(types.Symbol{Val: "host-cancel!"}, types.Func{Fn: func(ctx context.Context, a []types.MalType) (types.MalType, error) {
		runCancel()
		return nil, errBudget
	}})
	simhook.Install(spy)
	if shipped {
		inner := shippedDebugger(e)
		lisp.Stepper = func(a types.MalType, ns types.EnvType) debuggertypes.Command {
			spy.consults++
			spy.pending, spy.pendingAst, spy.pendingEnv = true, canon(a), ns
			return inner(a, ns)
		}
		simhook.Install(spy)
	} else if cmd != nil {
		n := 0
		lisp.Stepper = func(a types.MalType, ns types.EnvType) debuggertypes.Command {
			spy.consults++
			spy.pending, spy.pendingAst, spy.pendingEnv = true, canon(a), ns
			c := cmd(n)
			n++
			return c
		}
		simhook.Install(spy)
	}
	func() {
		defer func() {
			simhook.Install(nil)
			lisp.SimResetStepper()
			if r := recover(); r != nil {
				ex.panic = panicString(r)
			}
		}()
		res, err := lisp.EVAL(runCtx, ast(), e)
		ex.runaway = spy.runaway
		if err != nil {
			ex.result = "THROWN " + thrown03(err)
			ex.errText = err.Error()
		} else {
			ex.result = canon03(res)
		}
	}()
	for _, ev := range s.Events {
		if ev.Kind == "trace" {
			ex.trace = append(ex.trace, ev.A)
		}
	}
	return ex
}

var devNull *os.File

// shippedDebugger returns the Stepper of the debugger package's own engine, put into its "run to the
// end and trace" mode (what the F7 key selects: stop=false, trace=true) by writing its two unexported
// flags, since no key can be pressed here. In that mode it prints a trace line for every form of the
// module being debugged and answers no-op: real debugger code running as the callback.
var shippedDeb *debugger.Debugger

// initShippedDebugger must run outside any synctest bubble: Engine() opens the keyboard, which waits on
// real time and on package-level channels.
func initShippedDebugger() {
	if shippedDeb != nil {
		return
	}
	color.Output = io.Discard
	color.NoColor = true
	saved := os.Stdout
	if dn, err := os.OpenFile(os.DevNull, os.O_WRONLY, 0); err == nil {
		os.Stdout = dn
		defer func() { os.Stdout = saved; dn.Close() }()
	}
	shippedDeb = debugger.Engine("c18prog", NewEnv())
	v := reflect.ValueOf(shippedDeb).Elem()
	for name, val := range map[string]bool{"stop": false, "trace": true, "replOnEnd": false} {
		f := v.FieldByName(name)
		*(*bool)(unsafe.Pointer(f.UnsafeAddr())) = val
	}
}

func shippedDebugger(ns types.EnvType) func(types.MalType, types.EnvType) debuggertypes.Command {
	if shippedDeb == nil {
		panic("c18: shipped debugger not initialised (initShippedDebugger must run before the first bubble)")
	}
	return shippedDeb.Stepper
}

func (c18) Run(tp *Tape, opt RunOpt) *RunOut {
	out := &RunOut{prop: "C18", Stats: map[string]int64{}}
	// the evaluator prints ANSWER:/ERROR: lines on "next": debugger output, not a program effect
	if devNull == nil {
		devNull, _ = os.OpenFile(os.DevNull, os.O_WRONLY, 0)
	}
	saved := os.Stdout
	os.Stdout = devNull
	defer func() { os.Stdout = saved }()

	var src string
	c18BodyOnly = nil
	plan := c03Plan{}
	kind := tp.Weighted(LaneWork, []int{3, 3})
	if kind == 0 {
		g := &c03Gen{tp: tp}
		root := g.try(0, false)
		src = "(let [r " + root.render() + "] (list r e))"
		c18BodyOnly = rawPanicSites(root, true)
		if g.sites > 0 && tp.Chance(LaneWork, 2, 3) {
			site := 1 + tp.Draw(LaneWork, g.sites)
			plan[site] = c03Faults[1+tp.Draw(LaneWork, len(c03Faults)-1)]
			if tp.Chance(LaneWork, 1, 6) {
				// the host cancels the whole evaluation while a builtin runs: what follows (handlers, finally bodies,
				// the rest of the program) runs under an ended context, with and without a stepper alike
				plan[site] = "host-cancel"
			}
		}
		out.Stats["programs:try-nest"]++
	} else {
		var parts []string
		for k := 0; k < 1+tp.Draw(LaneWork, 3); k++ {
			t := c18Templates[tp.Draw(LaneWork, len(c18Templates))]
			parts = append(parts, strings.ReplaceAll(t, "N", strconv.Itoa(3+tp.Draw(LaneWork, 9))))
		}
		src = "(list " + strings.Join(parts, " ") + ")"
		out.Stats["programs:template"]++
	}
	mk := func() types.MalType {
		ast, err := lisp.READ(src, types.NewCursorFile("c18prog"), nil)
		if err != nil {
			panic("c18: cannot read generated program: " + src + ": " + err.Error())
		}
		return ast
	}
	refSpy := &stepSpy{}
	ref := c18Once(mk, plan, nil, refSpy)
	if ref.runaway {
		out.Discard = "reference-run-does-not-terminate"
		return out
	}
	if ref.panic != "" {
		// not a stepper matter (and not expected): report it under its own clause
		out.Violations = append(out.Violations, Violation{"C18.panic-without-stepper", normPanic(ref.panic), "EVAL panicked without a stepper: " + ref.panic + "\n  program: " + src})
		return out
	}
	check := func(cmds []int, tail int, label string) bool {
		spy := &stepSpy{}
		var used []string
		ex := c18Once(mk, plan, func(i int) debuggertypes.Command {
			c := tail
			if i < len(cmds) {
				c = cmds[i]
			}
			if len(used) < 40 {
				used = append(used, c18CmdNames[c])
			}
			out.Stats["fault:stepper-"+c18CmdNames[c]]++
			return c18Cmds[c]
		}, spy)
		out.Stats["stepper_consultations"] += spy.consults
		out.Stats["stepper_runs"]++
		viol := func(clause, sig, detail string) {
			out.Violations = append(out.Violations, Violation{"C18." + clause, sig, detail + "\n  program: " + src + "\n  fault plan: " + planStr(plan) + "\n  stepper commands (" + label + "): " + strings.Join(used, " ")})
		}
		ok := true
		if ex.runaway {
			viol("result", "does-not-terminate-under-the-stepper", "with the stepper the program was still running after 300000 evaluation steps; without it EVAL gave "+ref.result)
			return false
		}
		if ex.panic != "" {
			viol("panic", normPanic(ex.panic), "EVAL panicked with a stepper installed: "+ex.panic)
			ok = false
		} else if ex.result != ref.result {
			viol("result", "result-differs", "with the stepper EVAL gave\n    "+ex.result+"\n  without it\n    "+ref.result)
			ok = false
		} else if ex.errText != ref.errText {
			viol("result", "error-text-or-position-differs", "with the stepper EVAL returned the error\n    "+ex.errText+"\n  without it\n    "+ref.errText)
			ok = false
		}
		if strings.Join(ex.trace, " ") != strings.Join(ref.trace, " ") {
			viol("effects", "trace-differs", "with the stepper the program traced\n    "+strings.Join(ex.trace, " ")+"\n  without it\n    "+strings.Join(ref.trace, " "))
			ok = false
		}
		if spy.mismatch != "" {
			viol("callback-arguments", "form-or-scope-mismatch", spy.mismatch)
			ok = false
		}
		return ok
	}
	// 1. the seeded command tape: a command drawn at every consultation (bounded), then a drawn tail
	var cmds []int
	n := tp.Draw(LaneFault, 120)
	bias := tp.Draw(LaneFault, 4) // 0: uniform, k: mostly command k-... keeps long stretches of one command
	for i := 0; i < n; i++ {
		if bias > 0 && tp.Chance(LaneFault, 2, 3) {
			cmds = append(cmds, bias)
		} else {
			cmds = append(cmds, tp.Draw(LaneFault, 4))
		}
	}
	tail := tp.Draw(LaneFault, 4)
	check(cmds, tail, "seeded")
	// 1b. the debugger package's own engine as the callback (headless trace mode)
	if len(out.Violations) == 0 {
		spy := &stepSpy{}
		ex := c18OnceWith(mk, plan, nil, spy, true)
		out.Stats["shipped_debugger_runs"]++
		out.Stats["stepper_consultations"] += spy.consults
		dviol := func(clause, sig, detail string) {
			out.Violations = append(out.Violations, Violation{"C18." + clause, sig, detail + "\n  program: " + src + "\n  fault plan: " + planStr(plan) + "\n  stepper: the debugger package's engine in its run-to-the-end-and-trace mode"})
		}
		if ex.panic != "" {
			dviol("panic", normPanic(ex.panic), "EVAL panicked with the shipped debugger installed: "+ex.panic)
		} else if ex.result != ref.result || ex.errText != ref.errText {
			dviol("result", "result-differs-under-shipped-debugger", "with the shipped debugger EVAL gave\n    "+ex.result+" "+ex.errText+"\n  without it\n    "+ref.result+" "+ref.errText)
		}
		if strings.Join(ex.trace, " ") != strings.Join(ref.trace, " ") {
			dviol("effects", "trace-differs-under-shipped-debugger", "with the shipped debugger the program traced\n    "+strings.Join(ex.trace, " ")+"\n  without it\n    "+strings.Join(ref.trace, " "))
		}
		if spy.mismatch != "" {
			dviol("callback-arguments", "form-or-scope-mismatch", spy.mismatch)
		}
		// the same program must still compute the same afterwards, without any stepper (the trace must not
		// have damaged the program text)
		again := c18Once(mk, plan, nil, nil)
		if again.result != ref.result || strings.Join(again.trace, " ") != strings.Join(ref.trace, " ") {
			dviol("result", "program-changed-by-debugging", "after a debugged run the same source computes\n    "+again.result+"\n  instead of\n    "+ref.result)
		}
	}
	// 2. every command sequence up to length 4 (thorough: 5), then no-op, for this program, now and then
	maxLen, den := 4, 12
	if opt.Tier == "thorough" {
		maxLen, den = 5, 8
	}
	if enumerate := tp.Chance(LaneWork, 1, den); enumerate && refSpy.steps > 3000 {
		// 1364 executions of a program of tens of thousands of steps would take minutes: long programs get seeded
		// command tapes only
		out.Stats["exhaustive_prefix_enumerations_skipped_long_program"]++
	} else if len(out.Violations) == 0 && enumerate {
		out.Stats["exhaustive_prefix_enumerations"]++
		total := 1
		for l := 1; l <= maxLen; l++ {
			total *= 4
			for code := 0; code < total; code++ {
				seq := make([]int, l)
				c := code
				for i := 0; i < l; i++ {
					seq[i] = c % 4
					c /= 4
				}
				if !check(seq, 0, "enumerated") {
					l = maxLen + 1
					break
				}
			}
		}
	}
	out.Violations = firstPerClause(out.Violations)
	out.Nontrivial = out.Stats["stepper_consultations"] > 0 && len(cmds) > 0
	hsh := fnv(fnv(1469598103934665603, src), planStr(plan))
	for _, c := range cmds {
		hsh = fnv(hsh, c18CmdNames[c])
	}
	out.ILHash, out.EvHash, out.Tasks = hsh, hsh, 1
	if opt.Full {
		var cs []string
		for _, c := range cmds {
			cs = append(cs, c18CmdNames[c])
		}
		out.Sample = map[string]interface{}{"program": src, "fault_plan": planStr(plan), "commands": strings.Join(cs, " "), "then": c18CmdNames[tail], "result_without_stepper": ref.result}
	}
	return out
}
