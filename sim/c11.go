package lispsim

// C11 — concurrent evaluations on one environment are race-free and isolated.
//
// N programs instantiated from parameterised templates (same local names in every thread,
// thread-specific values and global names) run on one shared environment under seeded schedules.
// Oracles: (a) refinement against the solo run of each program in a fresh, identically prepared
// environment; (b) probes for leaked locals; (c) all-or-nothing, monotone visibility of a global
// that a writer thread redefines; (d) the race oracle.

import (
	"context"
	"strconv"
	"strings"
	"sync/atomic"

	"github.com/jig/lisp"
	"github.com/jig/lisp/simhook"
	"github.com/jig/lisp/types"
)

type c11 struct{}

func (c11) ID() string { return "C11" }

func init() { register(c11{}) }

const c11Shared = `(do
  (def shared-vec (conj [1 2 3] 4 5))
  (def shared-map {:a 1 :b 2})
  (def shared-list '(10 20 30))
  (def shared-fn (fn [x] (* x 3)))
  (defmacro shared-mac (fn [x] (list '+ x 100)))
  (def spin (fn [n] (if (> n 0) (spin (- n 1)) nil)))
  (def tmp-helper (fn [x] (* x 1000)))
  (def shared-atom (atom (vec (range 0 30))))
  (def shared-fn2 (fn [x] (do (cond false 0 true 1) (+ (shared-mac x) (-> x (+ 1)) (if (and x true) 1 0)))))
  (def shared-fn3 (fn [x] (let [y (or nil x)] (list (cond (> y 1000) :big true :small) (->> y (+ 1))))))
  (def shared-atom2 (atom (list 1 "str" :k [2 3] {:only 1})))
  (def shared-empty-map {})
  (def shared-empty-set (hash-set))
  (def shared-fresh-memo (memoize (fn [x] (* x 7))))
  nil)`

var c11Locals = []string{"a", "b", "c", "e", "x", "v", "n", "acc", "r", "f", "k", "tmp", "tmp2"}

// fragment templates: T = thread prefix ("t3"), N = thread-specific integer
var c11Templates = []struct {
	name string
	src  string
}{
	{"let", `(let [a N b (+ a 1) c (* b 2)] (do (trace! (list :T a b c)) (+ a b c)))`},
	{"let-shadow", `(let [a N] (let [a (+ a 1) b a] (do (trace! (list :T :inner a b)) (list a b))))`},
	{"tail-rec", `(do (def T-fact (fn [n acc] (if (= n 0) acc (T-fact (- n 1) (+ acc n N))))) (T-fact 6 0))`},
	{"nontail-rec", `(do (def T-sum (fn [n] (if (= n 0) N (+ n (T-sum (- n 1)))))) (T-sum 7))`},
	{"closure-atom", `(let [c (atom N) f (fn [k] (swap! c (fn [v] (+ v k))))] (do (f 1) (f 2) (trace! (list :T :atom @c)) @c))`},
	{"closure-counter", `(do (def T-mk (fn [a] (fn [b] (+ a b N)))) (let [f (T-mk 1) r (T-mk 2)] (list (f 10) (r 10))))`},
	{"own-macro", `(do (defmacro T-unless (fn [c a b] (list 'if c b a))) (T-unless false N 0))`},
	{"qq-macro", "(do (defmacro T-twice (fn [x] `(let [v ~x] (list v v)))) (T-twice (+ N 1)))"},
	{"cond", `(cond (> N 1000) :huge (> N 5) (list :big N) true :small)`},
	{"and-or", `(list (and 1 N) (or nil N) (and N nil) (or false nil))`},
	{"thread-first", `(-> N (+ 1) (* 2))`},
	{"thread-last", `(->> N (+ 1) (- 100))`},
	{"memoize", `(do (def T-m (memoize (fn [x] (do (trace! (list :T :memo x)) (+ x N))))) (list (T-m 1) (T-m 1) (T-m 2)))`},
	{"try-throw", `(try (throw N) (catch e (do (trace! (list :T :caught e)) (+ e 1))))`},
	{"try-builtin", `(try (nth [1 2] N) (catch e :T-caught))`},
	{"try-nested", `(try (try (throw (list :T N)) (catch e (throw (list :again e)))) (catch e e))`},
	{"defs", `(do (def T-x N) (def T-y (+ T-x 1)) (list T-x T-y))`},
	{"conj-shared", `(conj shared-vec N)`},
	{"conj-shared-count", `(let [v (conj shared-vec N :T)] (do (spin 3) (list (count v) (nth v 5) (nth v 6))))`},
	{"assoc-shared", `(assoc shared-map :k N)`},
	{"concat-shared", `(concat shared-list (list N))`},
	{"assoc-shared-empty", `(let [m (assoc shared-empty-map :T N)] (do (spin 3) (list (count m) (get m :T) (count shared-empty-map))))`},
	{"assoc-shared-empty-chain", `(assoc (assoc shared-empty-map :T N) :b N)`},
	{"conj-shared-empty-set", `(let [s (conj shared-empty-set N :T)] (do (spin 3) (list (count s) (count shared-empty-set))))`},
	{"memo-shared-first-calls", `(list (shared-fresh-memo N) (shared-fresh-memo 1) (shared-fresh-memo N))`},
	{"rest-shared", `(cons N (rest shared-list))`},
	{"splice-shared", "`(1 ~@shared-list ~N)"},
	{"shared-fn", `(shared-fn N)`},
	{"shared-mac", `(shared-mac N)`},
	{"map-closure", `(map (fn [x] (+ x N)) [1 2 3])`},
	{"apply", `(apply + (list N 1 2))`},
	{"reduce", `(reduce + 0 [1 2 N])`},
	{"future", `(do (def T-f (future (do (def T-fx N) (trace! (list :T :body T-fx)) (+ T-fx 1)))) @T-f)`},
	{"future-let", `(let [a N f (future (let [b (+ a 1)] (do (spin 2) (* b 2))))] (list a @f))`},
	{"update", `(update {:a 1} :a (fn [v] (+ v N)))`},
	{"vec-ops", `(let [v (vec (list 1 2 N))] (list (count v) (first v) (nth v 2) (rest v)))`},
	{"gensym", `(let [a (gensym) b (gensym)] (if (= a b) :same :distinct))`},
	// a def inside a function body binds in the scope of that call: a temporary, not a global
	{"thunk-def-local", `((fn [] (do (def tmp N) (spin 3) (+ tmp 1))))`},
	{"future-def-local", `@(future (do (def tmp N) (spin 3) (def tmp2 (+ tmp 1)) (spin 2) (list tmp tmp2)))`},
	{"fn-def-local", `(do (def T-g (fn [x] (do (def tmp (+ x N)) (spin 2) tmp))) (list (T-g 1) (T-g 2)))`},
	// a future started in a non-final binding of a let: its body reads the scope while later bindings are written
	{"future-mid-let", `(let [a N f (future (do (spin 2) (+ a 1))) b (+ a 2) c (+ b 3) v (+ c 4)] (list @f b c v))`},
	{"future-mid-let2", `(let [f (future (spin 4)) a N b (list a a) c (count b)] (do @f (list a b c)))`},
	{"map-builtin-fn", `(list (map inc [1 2 N]) (map (fn [x] (* x N)) (list 1 2)))`},
	{"memoize-shared-arg", `(do (def T-mm (memoize (fn [x] (* x N)))) (list (T-mm 2) (T-mm 3) (T-mm 2)))`},
	{"update-in", `(update-in {:a {:b N}} [:a :b] (fn [v] (+ v 1)))`},
	{"sleepless-deref", `(let [f (future N) r (future (+ N 1))] (list @f @r @f))`},
	// a name made by gensym is used as a global by this evaluation only: nobody else may be handed the same one
	{"gensym-global", `(let [g (gensym)] (do (eval (list 'def g N)) (spin 3) (eval g)))`},
	{"gensym-many", `(let [a (gensym) b (gensym) c (gensym)] (do (eval (list 'def a N)) (eval (list 'def b (+ N 1))) (eval (list 'def c (+ N 2))) (spin 2) (list (eval a) (eval b) (eval c))))`},
	// a local helper defined after a future was started in the same (parameterless) call scope shadows the
	// shared global of the same name for that future's body too; the body waits on the fake clock, so the
	// definition is in place whatever the schedule
	{"late-local-helper", `((fn [] (do (def fut (future (do (sleep 1) (tmp-helper 2)))) (def tmp-helper (fn [x] (* x N))) @fut)))`},
	// a parameter named like another program's global macro, in call position
	{"param-named-like-others-macro", `((fn [O-unless x] (O-unless x N)) (fn [a b] (+ a b)) 1)`},
	{"let-fn-named-like-others-macro", `(let [O-twice (fn [x] (* x N))] (list (O-twice 2) (O-twice 3)))`},
	{"own-macro-repeated", `(do (defmacro T-unless (fn [c a b] (list 'if c b a))) (list (T-unless false N 0) (do (spin 3) (T-unless true 0 N)) (T-unless false (+ N 1) 0)))`},
	// the rest list of a variadic callback outlives the call (a future reads it later)
	{"map-rest-future", `(map deref (map (fn [& xs] (future (do (spin 2) (first xs)))) (list N (+ N 1) (+ N 2))))`},
	{"map-rest-closure", `(map (fn [c] (c)) (map (fn [& xs] (fn [] (first xs))) (list N (+ N 1) (+ N 2))))`},
	// closures with the same text in every thread, different captured values
	{"memoize-closure-same-text", `(let [k N] (let [m (memoize (fn [x] (+ x k)))] (list (m 1) (m 2) (m 1))))`},
	{"memoize-closure-same-text2", `(let [k N m (memoize (fn [x y] (list x y k)))] (do (spin 2) (list (m 1 2) (m 1 2))))`},
	{"redefine-own-global", `(do (def T-acc 0) (def T-acc (+ T-acc N)) (spin 2) (def T-acc (+ T-acc 1)) T-acc)`},
	// a shared atom is printed (a read) by several evaluations at once
	{"print-shared-atom", `(list N (str shared-atom) (count (pr-str shared-atom2)))`},
	{"print-shared-atom2", `(do (spin 1) (list (pr-str shared-atom) N (str "x" shared-atom2)))`},
	{"deref-shared-atom", `(list (count @shared-atom) (nth @shared-atom2 1) N)`},
	// a self-tail-recursive loop whose turns start futures / make closures that outlive the turn
	{"tail-loop-futures", `(do (def T-spawn (fn [i acc] (if (> i 3) acc (T-spawn (+ i 1) (conj acc (future (do (spin 1) (* i N)))))))) (map deref (T-spawn 1 [])))`},
	{"tail-loop-closures", `(do (def T-mkc (fn [i acc] (if (> i 3) acc (T-mkc (+ i 1) (conj acc (fn [] (list i N))))))) (map (fn [c] (c)) (T-mkc 1 [])))`},
	// the first calls of shared functions that nobody has called yet (their bodies contain macro calls)
	{"first-call-shared-fn2", `(list (shared-fn2 N) (shared-fn2 1))`},
	{"first-call-shared-fn3", `(shared-fn3 N)`},
	// the shared macro is used while (in some runs) another thread defines it again
	{"use-shared-mac", `(list (shared-mac N) (do (spin 1) (shared-mac (+ N 1))) (shared-mac 1))`},
	// keywords and code made at run time
	{"make-keywords", `(let [k (keyword (str "T-k" N))] (list k (get (hash-map k N) k) (keyword "T-fresh") (str (keyword (str "kk" N)))))`},
	{"read-string-keywords", `(read-string "(:T-a :T-b N {:T-c N})")`},
	{"fresh-keywords", `(list N (count (str (keyword (str "T-k" (nonce!))))) (count (pr-str (read-string (str "(:r" (nonce!) " :s" (nonce!) " 1)")))))`},
	{"fresh-keywords2", `(do (spin 1) (let [k (keyword (str "q" (nonce!)))] (list (get (hash-map k N) k) (keyword? k))))`},
	// a macro whose expansion contains a closure over the macro function's parameter
	{"macro-closure-over-param", `(do (defmacro T-fix (fn [v] (let [k (fn [] v)] (list k)))) (list (T-fix N) (cond false 0 true (T-fix (+ N 1))) (-> (T-fix 2) (+ N))))`},
	// an atom of the program's own is printed by one of its threads while another one updates it
	{"own-atom-printed-while-swapped", `(do (def T-at (atom [N])) (let [f (future (do (swap! T-at conj 1) (spin 1) (swap! T-at conj 2) :done)) s (str T-at)] (do @f (list (count s) (str T-at)))))`},
	{"own-atom-printed-while-reset", `(let [a (atom (list N)) f (future (do (reset! a (list N N)) (reset! a (list N N N))))] (do (pr-str a) @f (pr-str a)))`},
	// a future that is cancelled while it is computing (its evaluation ends in the evaluator's cancellation branch)
	{"cancel-busy-future", `(do (def T-long (fn [n] (if (> n 0) (T-long (- n 1)) :done))) (let [f (future (T-long 300))] (do (spin 2) (future-cancel f) (try @f (catch e nil)) N)))`},
	{"cancel-busy-future2", `(let [f (future (do (spin 400) :done)) r (future-cancel f)] (do (try @f (catch e nil)) (spin 2) (list N)))`},
	{"late-local-helper2", `((fn [] (do (def fut (future (do (sleep 2) (list (tmp-helper 1) (tmp-helper 3))))) (spin 2) (def tmp-helper (fn [x] (+ x N))) @fut)))`},
}

type c11Prog struct {
	Thread int
	Frags  []string
	Src    string
	ast    types.MalType
	solo   string
	soloTr []string
}

type c11Probe struct {
	ID  string
	Src string
	ast types.MalType
}

type c11World struct {
	s      *Sim
	env    types.EnvType
	progs  []*c11Prog
	ctxs   []context.Context
	probes [][]*c11Probe // per auxiliary thread
}

func (w *c11World) progFn(i int) func(*Task) {
	return func(t *Task) {
		p := w.progs[i]
		id := "p" + strconv.Itoa(i)
		w.s.Rec("inv", id, "", 0)
		res, err := lisp.EVAL(w.ctxs[i], p.ast, w.env)
		recRet(w.s, id, res, err, false)
	}
}

func (w *c11World) auxFn(i int, ctx context.Context) func(*Task) {
	return func(t *Task) {
		for _, pr := range w.probes[i] {
			w.s.Rec("inv", pr.ID, "", 0)
			res, err := lisp.EVAL(ctx, pr.ast, w.env)
			recRet(w.s, pr.ID, res, err, false)
		}
	}
}

// c11Nonce: (nonce!) returns a nine-digit number that no earlier call in this process has returned (names made
// from it are new to every process-wide table, also after the solo runs).
var c11Nonce int64

func c11Env(h *Harness) types.EnvType {
	e := NewEnv()
	h.Install(e)
	e.Set(types.Symbol{Val: "nonce!"}, types.Func{Fn: func(ctx context.Context, a []types.MalType) (types.MalType, error) {
		return int(100000000 + atomic.AddInt64(&c11Nonce, 1)%800000000), nil
	}})
	if _, err := lisp.EVAL(context.Background(), mustRead(c11Shared), e); err != nil {
		panic("c11 shared setup: " + err.Error())
	}
	return e
}

func c11WriterVal(k int) string {
	// distinct structured values: a map holding a vector whose length and content depend on k
	var xs []string
	for j := 0; j <= k%4+1; j++ {
		xs = append(xs, strconv.Itoa(k))
	}
	return "{:n " + strconv.Itoa(k) + " :v [" + strings.Join(xs, " ") + "]}"
}

func (c11) Run(tp *Tape, opt RunOpt) *RunOut {
	out := &RunOut{prop: "C11", Stats: map[string]int64{}}
	nProg := 2 + tp.Draw(LaneWork, 4)
	cfg := SimCfg{
		Q:        []int{1, 2, 3, 5, 8, 16, 64, 256}[tp.Draw(LaneWork, 8)],
		StarveID: -1,
		FullLog:  opt.Full,
	}
	if tp.Chance(LaneWork, 1, 5) {
		cfg.StarveID = tp.Draw(LaneWork, nProg+3)
		cfg.StarveFrom = tp.Draw(LaneWork, 30)
		cfg.StarveLen = 5 + tp.Draw(LaneWork, 100)
	}
	if tp.Chance(LaneWork, 1, 4) {
		// PCT policy instead of the random walk: priorities with 0-2 change points
		cfg.PCTDepth = 1 + tp.Draw(LaneWork, 3)
		cfg.PCTSpan = []int{30, 120, 600}[tp.Draw(LaneWork, 3)]
	}
	s := NewSim(tp, cfg)
	h := &Harness{S: s}
	e := c11Env(h)
	w := &c11World{s: s, env: e}
	var rendering []string
	for i := 0; i < nProg; i++ {
		p := &c11Prog{Thread: i}
		nf := 2 + tp.Draw(LaneWork, 4)
		T := "t" + strconv.Itoa(i)
		var parts []string
		for k := 0; k < nf; k++ {
			tpl := c11Templates[tp.Draw(LaneWork, len(c11Templates))]
			N := strconv.Itoa(10*(i+1) + k)
			O := "t" + strconv.Itoa((i+1)%nProg)
			src := strings.ReplaceAll(strings.ReplaceAll(strings.ReplaceAll(tpl.src, "O-", O+"-"), "T", T), "N", N)
			p.Frags = append(p.Frags, tpl.name)
			parts = append(parts, src)
		}
		p.Src = "(list " + strings.Join(parts, " ") + ")"
		p.ast = mustRead(p.Src)
		w.progs = append(w.progs, p)
		rendering = append(rendering, "thread "+strconv.Itoa(i)+": "+p.Src)
		ctx, cancel := context.WithCancel(context.Background())
		s.AddCancel(cancel)
		w.ctxs = append(w.ctxs, ctx)
	}
	// auxiliary threads: writer of g, readers of g, probes for leaked locals
	nWrites := 0
	var auxNames []string
	if tp.Chance(LaneWork, 2, 3) {
		nWrites = 2 + tp.Draw(LaneWork, 5)
		var ps []*c11Probe
		for k := 1; k <= nWrites; k++ {
			src := "(def g '" + c11WriterVal(k) + ")"
			ps = append(ps, &c11Probe{ID: "w." + strconv.Itoa(k), Src: src, ast: mustRead(src)})
		}
		w.probes = append(w.probes, ps)
		auxNames = append(auxNames, "writer")
		nReaders := 1 + tp.Draw(LaneWork, 2)
		for r := 0; r < nReaders; r++ {
			var rs []*c11Probe
			n := 2 + tp.Draw(LaneWork, 6)
			for k := 0; k < n; k++ {
				src := "(try g (catch zz :unbound))"
				rs = append(rs, &c11Probe{ID: "r" + strconv.Itoa(r) + "." + strconv.Itoa(k), Src: src, ast: mustRead(src)})
			}
			w.probes = append(w.probes, rs)
			auxNames = append(auxNames, "reader"+strconv.Itoa(r))
		}
	}
	if tp.Chance(LaneWork, 1, 3) {
		// a thread that defines the shared macro again and again, always the same: to the others nothing changes
		var ps []*c11Probe
		n := 2 + tp.Draw(LaneWork, 5)
		for k := 0; k < n; k++ {
			src := "(do (defmacro shared-mac (fn [x] (list '+ x 100))) nil)"
			ps = append(ps, &c11Probe{ID: "m." + strconv.Itoa(k), Src: src, ast: mustRead(src)})
		}
		w.probes = append(w.probes, ps)
		auxNames = append(auxNames, "macro-redefiner")
	}
	if tp.Chance(LaneWork, 2, 3) {
		var ps []*c11Probe
		n := 3 + tp.Draw(LaneWork, 10)
		for k := 0; k < n; k++ {
			name := c11Locals[tp.Draw(LaneWork, len(c11Locals))]
			src := "(try " + name + " (catch zz :unbound))"
			ps = append(ps, &c11Probe{ID: "l." + strconv.Itoa(k) + "." + name, Src: src, ast: mustRead(src)})
		}
		w.probes = append(w.probes, ps)
		auxNames = append(auxNames, "prober")
	}
	for i, n := range auxNames {
		rendering = append(rendering, n+": "+strconv.Itoa(len(w.probes[i]))+" x "+w.probes[i][0].Src)
	}

	// ---- solo reference runs: each program alone, in a fresh identically prepared environment, under
	// a scheduler of its own that never preempts (empty replay tape: every draw is 0) ----
	for _, p := range w.progs {
		solo := NewSim(&Tape{Replay: true}, SimCfg{Q: 1, StarveID: -1})
		se := c11Env(&Harness{S: solo})
		sw := &c11World{s: solo, env: se, progs: []*c11Prog{p}, ctxs: []context.Context{context.Background()}}
		simhook.Install(solo)
		solo.Go("solo", sw.progFn(0))
		solo.Run()
		simhook.Install(nil)
		if solo.Aborted != "" {
			panic("c11: solo run aborted: " + solo.Aborted)
		}
		for _, ev := range solo.Events {
			switch ev.Kind {
			case "trace":
				p.soloTr = append(p.soloTr, ev.A)
			case "ret":
				if ev.N&1 == 1 {
					p.solo = "ERR " + ev.B
				} else {
					p.solo = ev.B
				}
			}
		}
	}

	// ---- concurrent run ----
	simhook.Install(s)
	for i := range w.progs {
		s.Go("prog"+strconv.Itoa(i), w.progFn(i))
	}
	for i, n := range auxNames {
		ctx, cancel := context.WithCancel(context.Background())
		s.AddCancel(cancel)
		s.Go(n, w.auxFn(i, ctx))
	}
	s.Run()
	simhook.Install(nil)
	out.collect(s)

	viol := func(clause, sig, detail string) {
		out.Violations = append(out.Violations, Violation{"C11." + clause, sig, detail})
	}
	if s.Hang != nil {
		viol("hang", s.Hang.Kind, "evaluations never return: "+strings.Join(s.Hang.Tasks, "; "))
	} else if s.Aborted != "" {
		out.Discard = "aborted:" + s.Aborted
	}
	if s.Aborted == "" {
		results := map[string]string{}
		isErr := map[string]bool{}
		var retOrder []string
		traces := map[string][]string{}
		for _, ev := range s.Events {
			switch ev.Kind {
			case "ret":
				results[ev.A] = ev.B
				isErr[ev.A] = ev.N&1 == 1
				retOrder = append(retOrder, ev.A)
			case "trace":
				// traces are tagged (:tI ...): attribute to thread I
				if strings.HasPrefix(ev.A, "(:t") {
					tag := ev.A[2:strings.IndexAny(ev.A, " )")]
					traces[tag] = append(traces[tag], ev.A)
				}
			}
		}
		// (a) refinement against the solo run
		for i, p := range w.progs {
			id := "p" + strconv.Itoa(i)
			got := results[id]
			if isErr[id] {
				got = "ERR " + got
			}
			if got != p.solo {
				// signature: the fragment(s) whose element differs
				sig := diffFrags(p, got)
				viol("refinement", sig, "thread "+strconv.Itoa(i)+" returned\n    "+got+"\n  but alone it returns\n    "+p.solo+"\n  program: "+p.Src)
			}
			tr := traces["t"+strconv.Itoa(i)]
			if strings.Join(tr, "|") != strings.Join(p.soloTr, "|") {
				viol("refinement-effects", "trace-differs", "thread "+strconv.Itoa(i)+" traced\n    "+strings.Join(tr, " ")+"\n  but alone it traces\n    "+strings.Join(p.soloTr, " ")+"\n  program: "+p.Src)
			}
		}
		// (b) no local is visible from another evaluation's top level
		for id, r := range results {
			if strings.HasPrefix(id, "l.") && r != ":unbound" {
				name := id[strings.LastIndex(id, ".")+1:]
				viol("local-leak", "local-visible-at-top-level", "probe "+id+" saw a value for the local name "+name+" at top level: "+r)
			}
		}
		// (c) global definitions are seen entirely or not at all, never going back
		valid := map[string]int{":unbound": 0}
		for k := 1; k <= nWrites; k++ {
			valid[canon(mustReadQuoted(c11WriterVal(k)))] = k
		}
		last := map[string]int{}
		for _, id := range retOrder {
			if !strings.HasPrefix(id, "r") {
				continue
			}
			reader := id[:strings.Index(id, ".")]
			k, ok := valid[results[id]]
			if !ok {
				viol("def-atomic", "partial-or-foreign-value", "reader "+id+" obtained a value for g that the writer never defined: "+results[id])
				continue
			}
			if k < last[reader] {
				viol("def-atomic", "definition-went-back", "reader "+reader+" saw definition "+strconv.Itoa(last[reader])+" of g and later definition "+strconv.Itoa(k))
			}
			last[reader] = k
		}
	}
	out.Nontrivial = len(s.tasks) >= 2 && s.Switches >= 4
	if opt.Full {
		out.Sample = map[string]interface{}{"program": rendering, "cfg": map[string]int{"Q": cfg.Q, "StarveID": cfg.StarveID, "PCTDepth": cfg.PCTDepth}}
	}
	return out
}

func mustReadQuoted(src string) types.MalType { return mustRead(src) }

// diffFrags names the fragments of p whose result element differs from the solo result.
func diffFrags(p *c11Prog, got string) string {
	a := splitTop(got)
	b := splitTop(p.solo)
	if len(a) != len(b) || len(a) != len(p.Frags) {
		return "shape"
	}
	var names []string
	seen := map[string]bool{}
	for i := range a {
		if a[i] != b[i] && !seen[p.Frags[i]] {
			seen[p.Frags[i]] = true
			names = append(names, p.Frags[i])
		}
	}
	if len(names) > 2 {
		names = names[:2]
	}
	return strings.Join(names, "+")
}

// splitTop splits the canonical print of a list "(x y z)" into its top-level elements.
func splitTop(s string) []string {
	if len(s) < 2 || s[0] != '(' {
		return nil
	}
	s = s[1 : len(s)-1]
	var out []string
	depth, start, inStr := 0, 0, false
	for i := 0; i < len(s); i++ {
		c := s[i]
		if inStr {
			if c == '\\' {
				i++
			} else if c == '"' {
				inStr = false
			}
			continue
		}
		switch c {
		case '"':
			inStr = true
		case '(', '[', '{':
			depth++
		case ')', ']', '}':
			depth--
		case ' ':
			if depth == 0 {
				if i > start {
					out = append(out, s[start:i])
				}
				start = i + 1
			}
		}
	}
	if start < len(s) {
		out = append(out, s[start:])
	}
	return out
}
