#!/bin/bash
# Runs the quick check of each seeded change's property against a scratch worktree with the change applied
# and prints one line per change: CAUGHT (exit 1), MISSED (exit 0) or TROUBLE (exit 2).
cd "$(dirname "$0")/.."
for d in seeded/*/; do
  id=$(basename "$d"); prop=${id%%-*}
  [ -f "$d/patch.diff" ] || continue
  out=$(MUT_LINES=2 tools/try_mutant.sh "$d/patch.diff" quick "$prop" 2>&1)
  rc=$(echo "$out" | grep -o 'exit=[0-9]*' | head -1 | cut -d= -f2)
  case "$rc" in 1) v=CAUGHT;; 0) v=MISSED;; *) v=TROUBLE;; esac
  clauses=$(echo "$out" | grep -o 'clause=[^ ]*' | sort -u | tr '\n' ' ')
  echo "$id $v $clauses"
done
