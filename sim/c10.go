package lispsim

// C10 — futures run once, give every reader the same outcome, report status consistently.
//
// A creator thread defines 1-2 futures whose bodies complete at scheduler-chosen instants (gates),
// at simulated instants (sleep) or at once, normally or by throwing; 1-4 caller threads issue
// deref (with or without a deadline), future-done?, future-cancelled? and future-cancel before,
// during and after completion. The recorded history is checked against obligations O1-O6 (each a
// sentence of the statement, phrased over observable events and event stamps only); O7 is the
// race oracle.

import (
	"context"
	"sort"
	"strconv"
	"strings"
	"testing/synctest"
	"time"

	"github.com/anishathalye/porcupine"
	"github.com/jig/lisp"
	"github.com/jig/lisp/simhook"
	"github.com/jig/lisp/types"
)

type c10Fut struct {
	LateCtx   bool // created through (apply future-call (blind-nap-list ms thunk)): the creator's context may end during the nap
	Inner     bool // created by f0's body instead of by the creator thread (its context derives from f0's)
	Idx       int
	Body      string
	Tok       int
	SleepMs   int
	Spin      int
	Src       string
	Normal    string // canonical normal outcome ("" when not known a priori)
	NormalOK  bool
	NormalErr bool // the normal outcome is delivered as an error (the body throws)
}

type c10Op struct {
	ID       string
	Kind     string // deref | done? | cancelled? | cancel | open-gate | nap
	Fut      int
	Deadline time.Duration // deref only; 0 = none
	Ms       int
	Src      string
	ast      types.MalType
}

type c10Thread struct {
	ops []*c10Op
	ctx context.Context
}

type c10 struct{}

func (c10) ID() string { return "C10" }

func init() { register(c10{}) }

var c10Bodies = []string{"val", "gate-ctx", "gate-ign", "throw", "sleep", "spin", "fail", "deref-other", "nil", "false", "coll", "gate-then-throw", "call-fn", "nested-future", "error-value", "error-value-gate", "try-gate-ctx", "try-sleep", "throw-through-two-futures", "fail-through-two-futures"}
var c10BodyW = []int{3, 4, 3, 2, 3, 2, 1, 1, 1, 1, 1, 2, 1, 1, 2, 1, 3, 1, 2, 1}
var c10OpKinds = []string{"deref", "done?", "cancelled?", "cancel", "deref-deadline", "nap", "print"}
var c10OpW = []int{5, 4, 3, 2, 3, 1, 1}

func futName(i int) string { return "f" + strconv.Itoa(i) }

// ---- sequential specification of one future's status, for porcupine ----
//
// phase: 0 running, 1 completed (never cancelled), 2 cancelled while running, 3 cancelled and the body has
// finished since. "complete" is the internal event "the body finished evaluating", an operation whose
// interval runs from the body's return to the end of the body's thread. Only what the statement fixes is
// enforced: a deref returns the outcome only once the body has finished; future-done? may lag behind
// completion until some deref has returned the outcome, never the other way round; future-cancel returns
// true exactly when it takes effect on a running future (on an already cancelled one either answer passes)
// and false on a completed, uncancelled one; future-cancelled? tells whether a cancel took effect.
type futState struct {
	phase     int
	derefSeen bool
}

type futIn struct{ Kind string }

var futModel = porcupine.Model{
	Init: func() interface{} { return futState{} },
	Step: func(state, input, output interface{}) (bool, interface{}) {
		st := state.(futState)
		in := input.(futIn)
		out := output.(string)
		switch in.Kind {
		case "complete":
			switch st.phase {
			case 0:
				st.phase = 1
			case 2:
				st.phase = 3
			default:
				return false, st
			}
			return true, st
		case "deref":
			if out == "own-timeout" {
				return true, st
			}
			if st.phase == 1 || st.phase == 3 {
				st.derefSeen = true
				return true, st
			}
			return false, st
		case "done?":
			if out == "true" {
				return st.phase != 0, st
			}
			return st.phase == 0 || !st.derefSeen, st
		case "cancelled?":
			if out == "true" {
				return st.phase >= 2, st
			}
			return st.phase < 2, st
		case "cancel":
			switch st.phase {
			case 0:
				if out == "true" {
					st.phase = 2
					return true, st
				}
				return false, st
			case 1:
				return out == "false", st
			default:
				return true, st
			}
		}
		return false, st
	},
	Equal: func(a, b interface{}) bool { return a.(futState) == b.(futState) },
	DescribeOperation: func(input, output interface{}) string {
		return input.(futIn).Kind + " -> " + output.(string)
	},
}

type c10World struct {
	s       *Sim
	env     types.EnvType
	futs    []*c10Fut
	threads []*c10Thread
	creator context.Context
	burst   int // > 0: that many futures blocked at a gate are created first
}

//go:norace
func recRet(s *Sim, id string, res types.MalType, err error, ctxEnded bool) {
	n := int64(0)
	var r string
	if err != nil {
		n = 1
		r = canonErrQuiet(err)
	} else {
		r = canonValQuiet(res)
	}
	if ctxEnded {
		n += 2
	}
	s.Rec("ret", id, r, n)
}

func (w *c10World) callerFn(idx int) func(*Task) {
	return func(t *Task) {
		th := w.threads[idx]
		for _, op := range th.ops {
			ctx := th.ctx
			var cancel context.CancelFunc
			if op.Deadline > 0 {
				ctx, cancel = context.WithTimeout(th.ctx, op.Deadline)
			}
			w.s.Rec("inv", op.ID, "", int64(w.s.Now()))
			res, err := lisp.EVAL(ctx, op.ast, w.env)
			recRet(w.s, op.ID, res, err, ctx.Err() != nil)
			if cancel != nil {
				cancel()
			}
		}
	}
}

// callersDone: every caller thread has ended (evaluated by the scheduler while nobody runs).
//
//go:norace
func (w *c10World) callersDone() bool {
	for _, t := range w.s.tasks {
		if strings.HasPrefix(t.Name, "caller") && t.state != tsDone {
			return false
		}
	}
	return true
}

// burstOpenerFn releases the burst of blocked futures once every caller has finished.
func (w *c10World) burstOpenerFn(t *Task) {
	w.s.WaitUntil("callers-done", w.callersDone)
	w.s.OpenGate(`"burst"`)
}

func (w *c10World) creatorFn(t *Task) {
	if w.burst > 0 {
		// many futures whose bodies are all blocked (and stay so until the callers are done): the futures under
		// test must still run
		src := "(do (def burst (map (fn [i] (future (gate! \"burst\"))) (range 0 " + strconv.Itoa(w.burst) + "))) nil)"
		if _, err := lisp.EVAL(context.Background(), mustRead(src), w.env); err != nil {
			panic("c10 burst: " + err.Error())
		}
	}
	for _, f := range w.futs {
		if f.Inner {
			// wait until f0's body has defined f1 (callers must find the name)
			w.s.WaitUntil("inner-defined", w.innerDefined)
			if !w.s.GateOpen(`"f1-defined"`) {
				// the run will be discarded, but it must still run to its end (the gatekeeper opens the gates)
				w.s.Rec("inner-never-defined", "", "", 0)
			}
			continue
		}
		id := "create" + strconv.Itoa(f.Idx)
		w.s.Rec("inv", id, "", 0)
		res, err := lisp.EVAL(w.creator, mustRead("(def "+futName(f.Idx)+" "+f.Src+")"), w.env)
		recRet(w.s, id, res, err, w.creator.Err() != nil)
	}
	for i := range w.threads {
		w.s.Go("caller"+strconv.Itoa(i), w.callerFn(i))
	}
	if w.burst > 0 {
		w.s.Go("burst-opener", w.burstOpenerFn)
	}
}

// innerDefined: f0's body has defined f1 and said so (evaluated by the scheduler while nobody runs; it
// must not read the environment itself: the scheduler's synchronisation is invisible to the detector).
//
//go:norace
func (w *c10World) innerDefined() bool {
	if w.s.GateOpen(`"f1-defined"`) {
		return true
	}
	// f0's body may end without getting that far (its context can end first): do not wait for ever
	for _, t := range w.s.tasks {
		if t.IsBody && t.state == tsDone {
			return true
		}
	}
	return false
}

// GateCtxProbe wraps gate-ctx!: records, when the body leaves the gate, whether its context had ended.
type c10Harness struct {
	*Harness
}

//go:norace
func (h *c10Harness) GateCtxRec(ctx context.Context, a []types.MalType) (types.MalType, error) {
	r, err := h.Harness.GateCtx(ctx, a)
	n := int64(0)
	if ctx.Err() != nil {
		n = 1
	}
	h.S.Rec("gate-exit", canonQuiet(a, 0), "", n)
	return r, err
}

// BlindNapList: (blind-nap-list ms x) lets ms of simulated time pass without looking at the context
// (a slow embedder builtin), then returns (list x).
//
//go:norace
func (h *c10Harness) BlindNapList(ctx context.Context, a []types.MalType) (types.MalType, error) {
	ms, _ := a[0].(int)
	raceOff()
	time.Sleep(time.Duration(ms) * time.Millisecond)
	synctest.Wait()
	raceOn()
	return types.List{Val: []types.MalType{a[1]}}, nil
}

func (c10) Run(tp *Tape, opt RunOpt) *RunOut {
	out := &RunOut{prop: "C10", Stats: map[string]int64{}}
	// ---- generate ----
	nFut := 1
	if tp.Chance(LaneWork, 1, 3) {
		nFut = 2
	}
	nCallers := 1 + tp.Draw(LaneWork, 4)
	cfg := SimCfg{
		Q:          []int{1, 2, 3, 4, 8, 16}[tp.Draw(LaneWork, 6)],
		WindowBias: []int{0, 2, 3, 6}[tp.Draw(LaneWork, 4)],
		StepCost:   []time.Duration{0, time.Microsecond, 50 * time.Microsecond}[tp.Draw(LaneWork, 3)],
		StarveID:   -1,
		FullLog:    opt.Full,
		Horizon:    time.Hour,
	}
	if tp.Chance(LaneWork, 1, 4) {
		cfg.StarveID = tp.Draw(LaneWork, nCallers+4)
		cfg.StarveFrom = tp.Draw(LaneWork, 10)
		cfg.StarveLen = 5 + tp.Draw(LaneWork, 40)
	}
	if tp.Chance(LaneWork, 1, 4) {
		// PCT policy instead of the random walk: priorities with 0-2 change points
		cfg.PCTDepth = 1 + tp.Draw(LaneWork, 3)
		cfg.PCTSpan = []int{30, 120, 600}[tp.Draw(LaneWork, 3)]
	}
	s := NewSim(tp, cfg)
	s.RecPoints = []string{"future.body-returned"}
	e := NewEnv()
	h := &c10Harness{&Harness{S: s}}
	h.Install(e)
	e.Set(types.Symbol{Val: "gate-ctx!"}, types.Func{Fn: h.GateCtxRec})
	e.Set(types.Symbol{Val: "blind-nap-list"}, types.Func{Fn: h.BlindNapList})
	if _, err := lisp.EVAL(context.Background(), mustRead("(def spin (fn [n] (if (> n 0) (spin (- n 1)) nil)))"), e); err != nil {
		panic(err)
	}
	w := &c10World{s: s, env: e}
	var rendering []string
	var gates []string
	for i := 0; i < nFut; i++ {
		f := &c10Fut{Idx: i, Tok: 100 + 10*i}
		f.Body = c10Bodies[tp.Weighted(LaneWork, c10BodyW)]
		if f.Body == "deref-other" && i == 0 {
			f.Body = "val"
		}
		k := strconv.Itoa(f.Tok)
		tr := "(trace! :body-" + k + ")"
		switch f.Body {
		case "val":
			f.Src, f.Normal, f.NormalOK = "(future "+tr+" "+k+")", k, true
		case "throw":
			f.Src, f.Normal, f.NormalOK, f.NormalErr = "(future "+tr+" (throw "+k+"))", "#thrown<"+k+">", true, true
		case "fail":
			f.Src = "(future " + tr + " (+ 1 \"x" + k + "\"))"
		case "gate-ctx":
			f.Src, f.Normal, f.NormalOK = "(future "+tr+" (gate-ctx! \"g"+k+"\") "+k+")", k, true
			gates = append(gates, "g"+k)
		case "gate-ign":
			f.Src, f.Normal, f.NormalOK = "(future "+tr+" (gate! \"g"+k+"\") "+k+")", k, true
			gates = append(gates, "g"+k)
		case "sleep":
			f.SleepMs = 1 + tp.Draw(LaneWork, 50)
			f.Src, f.Normal, f.NormalOK = "(future "+tr+" (sleep "+strconv.Itoa(f.SleepMs)+") "+k+")", k, true
		case "spin":
			f.Spin = 5 + tp.Draw(LaneWork, 60)
			f.Src, f.Normal, f.NormalOK = "(future "+tr+" (spin "+strconv.Itoa(f.Spin)+") "+k+")", k, true
		case "deref-other":
			f.Src = "(future " + tr + " @f0)"
		case "nil":
			f.Src, f.Normal, f.NormalOK = "(future "+tr+" nil)", "nil", true
		case "false":
			f.Src, f.Normal, f.NormalOK = "(future "+tr+" false)", "false", true
		case "coll":
			f.Src, f.Normal, f.NormalOK = "(future "+tr+" (list "+k+" [1 2] {:k "+k+"}))", "("+k+" [1 2] {:k "+k+"})", true
		case "gate-then-throw":
			f.Src, f.Normal, f.NormalOK, f.NormalErr = "(future "+tr+" (gate! \"g"+k+"\") (throw "+k+"))", "#thrown<"+k+">", true, true
			gates = append(gates, "g"+k)
		case "call-fn":
			f.Src, f.Normal, f.NormalOK = "(future-call (fn [] (do "+tr+" (spin 3) "+k+")))", k, true
		case "error-value":
			// completes normally; its value happens to be an error object
			f.Src, f.Normal, f.NormalOK = "(future "+tr+" (try (nth [1 2] "+k+") (catch e e)))", "#goerr<nth: index out of range>", true
		case "error-value-gate":
			f.Src, f.Normal, f.NormalOK = "(future "+tr+" (gate! \"g"+k+"\") (try (throw (go-error \"ge"+k+"\")) (catch e e)))", "#goerr<ge"+k+">", true
			gates = append(gates, "g"+k)
		case "try-gate-ctx":
			// the body waits inside a try form: cancelling the future must reach it there too
			f.Src, f.Normal, f.NormalOK = "(future "+tr+" (try (gate-ctx! \"g"+k+"\") (catch e (throw e))) "+k+")", k, true
			gates = append(gates, "g"+k)
		case "try-sleep":
			f.SleepMs = 1 + tp.Draw(LaneWork, 50)
			f.Src, f.Normal, f.NormalOK = "(future "+tr+" (try (sleep "+strconv.Itoa(f.SleepMs)+") (finally nil)) "+k+")", k, true
		case "nested-future":
			f.Src, f.Normal, f.NormalOK = "(future "+tr+" @(future (do (spin 2) "+k+")))", k, true
		case "throw-through-two-futures":
			// the error has passed through two derefs before it becomes this future's outcome
			f.Src, f.Normal, f.NormalOK, f.NormalErr = "(future "+tr+" @(future @(future (throw "+k+"))))", "#thrown<"+k+">", true, true
		case "fail-through-two-futures":
			f.Src, f.Normal, f.NormalOK, f.NormalErr = "(future "+tr+" (deref (future (do (spin 1) (deref (future (nth [1 2] "+k+")))))))", "#goerr<nth: index out of range>", true, true
		}
		w.futs = append(w.futs, f)
	}
	if nFut == 2 && w.futs[0].Body != "deref-other" && w.futs[1].Body != "deref-other" && tp.Chance(LaneWork, 1, 3) {
		// f1 is started by f0's body, which then completes on its own: f1 outlives the future that made it
		w.futs[1].Inner = true
		f0 := w.futs[0]
		f0.Src = strings.Replace(f0.Src, "(trace! :body-"+strconv.Itoa(f0.Tok)+")", "(trace! :body-"+strconv.Itoa(f0.Tok)+") (eval (quote (def f1 "+w.futs[1].Src+"))) (open-gate! \"f1-defined\")", 1)
	}
	rootCtx, rootCancel := context.WithCancel(context.Background())
	s.AddCancel(rootCancel)
	w.creator = rootCtx
	creatorDeadline := time.Duration(0)
	if tp.Chance(LaneFault, 1, 4) {
		// fault: the creator's context ends while futures are alive
		creatorDeadline = time.Duration(10+tp.Draw(LaneFault, 40))*time.Millisecond + 977*time.Nanosecond
		var c context.CancelFunc
		w.creator, c = context.WithTimeout(rootCtx, creatorDeadline)
		s.AddCancel(c)
		out.Stats["fault:creator-deadline"]++
	}
	if creatorDeadline > 0 && strings.HasPrefix(w.futs[0].Src, "(future ") && tp.Chance(LaneFault, 1, 3) {
		// the creator's context ends while it is inside a builtin that does not look at the context, right
		// before future-call is applied: the future is created under an already ended context
		f0 := w.futs[0]
		f0.LateCtx = true
		nap := int(creatorDeadline/time.Millisecond) + 1 + tp.Draw(LaneFault, 5)
		f0.Src = "(apply future-call (blind-nap-list " + strconv.Itoa(nap) + " (fn [] (do " + strings.TrimSuffix(strings.TrimPrefix(f0.Src, "(future "), ")") + "))))"
		out.Stats["fault:future-created-under-ended-context"]++
	}
	for _, f := range w.futs {
		if f.Inner {
			rendering = append(rendering, "(f1 is defined by the body of f0)")
			continue
		}
		rendering = append(rendering, "creator: (def "+futName(f.Idx)+" "+f.Src+")")
	}
	ops := map[string]*c10Op{}
	opN := 0
	mkThread := func(label string, gen func(k int) *c10Op, n int) {
		ctx, cancel := context.WithCancel(context.Background())
		s.AddCancel(cancel)
		th := &c10Thread{ctx: ctx}
		for k := 0; k < n; k++ {
			op := gen(k)
			op.ID = label + "." + strconv.Itoa(k)
			op.ast = mustRead(op.Src)
			ops[op.ID] = op
			th.ops = append(th.ops, op)
			r := label + ": " + op.Src
			if op.Deadline > 0 {
				r += "   ; deadline " + op.Deadline.String()
			}
			rendering = append(rendering, r)
		}
		w.threads = append(w.threads, th)
	}
	for ci := 0; ci < nCallers; ci++ {
		n := 1 + tp.Draw(LaneWork, 5)
		mkThread("c"+strconv.Itoa(ci), func(k int) *c10Op {
			op := &c10Op{Fut: tp.Draw(LaneWork, nFut)}
			kind := c10OpKinds[tp.Weighted(LaneWork, c10OpW)]
			fn := futName(op.Fut)
			opN++
			switch kind {
			case "deref":
				op.Kind, op.Src = "deref", "@"+fn
			case "deref-deadline":
				op.Kind, op.Src = "deref", "@"+fn
				op.Deadline = time.Duration(1+tp.Draw(LaneFault, 60))*time.Millisecond + time.Duration(13*opN+7)*time.Nanosecond
			case "done?":
				op.Kind, op.Src = "done?", "(future-done? "+fn+")"
			case "cancelled?":
				op.Kind, op.Src = "cancelled?", "(future-cancelled? "+fn+")"
			case "cancel":
				op.Kind, op.Src = "cancel", "(future-cancel "+fn+")"
			case "nap":
				op.Ms = 1 + tp.Draw(LaneWork, 30)
				op.Kind, op.Src = "nap", "(sleep "+strconv.Itoa(op.Ms)+")"
			case "print":
				// printing a future is not one of the operations of the statement; it must not disturb them (a
				// printer that looks at the outcome must leave it where every later deref finds it)
				op.Kind, op.Src = "nap", []string{"(do (pr-str "+fn+") nil)", "(do (str "+fn+") nil)", "(do (pr-str [1 "+fn+"]) nil)"}[tp.Draw(LaneWork, 3)]
			}
			return op
		}, n)
	}
	if len(gates) > 0 {
		// the gatekeeper opens every gate at an instant the scheduler chooses
		mkThread("gk", func(k int) *c10Op {
			if k%2 == 0 {
				ms := tp.Draw(LaneWork, 20)
				if ms == 0 {
					return &c10Op{Kind: "nap", Src: "nil"}
				}
				return &c10Op{Kind: "nap", Ms: ms, Src: "(sleep " + strconv.Itoa(ms) + ")"}
			}
			return &c10Op{Kind: "open-gate", Src: "(open-gate! \"" + gates[k/2] + "\")"}
		}, 2*len(gates))
	}
	if tp.Chance(LaneFault, 1, 150) && creatorDeadline == 0 {
		// (not under a creator deadline: creating the burst takes simulated time, the deadline would pass first)
		w.burst = 130 + tp.Draw(LaneFault, 40)
		out.Stats["fault:burst-of-blocked-futures"]++
		rendering = append(rendering, "creator (first): "+strconv.Itoa(w.burst)+" futures whose bodies wait at a gate that opens when all callers are done")
	}
	// ---- run ----
	simhook.Install(s)
	s.Go("creator", w.creatorFn)
	s.Run()
	simhook.Install(nil)
	out.collect(s)
	for _, k := range []string{"ret-class:outcome", "ret-class:own-timeout"} {
		out.Stats[k] += 0
	}

	// ---- history ----
	type rec struct {
		invAt    time.Duration // simulated instant of the invocation
		wokeAt   time.Duration // simulated instant at which its blocking deref fired (-1: never blocked)
		blockAt  time.Duration // simulated instant at which that blocking deref was entered
		task     int
		op       *c10Op
		inv, ret uint64
		res      string
		isErr    bool
		ctxEnded bool
		done     bool
	}
	futIdx := map[interface{}]int{}
	for i := 0; i < nFut; i++ {
		if v, err := e.Get(types.Symbol{Val: futName(i)}); err == nil {
			futIdx[v] = i
		}
	}
	recs := map[string]*rec{}
	curOp := map[int]*rec{}
	var order []*rec
	bodyRet := make([]uint64, nFut)
	bodyEnd := make([]uint64, nFut)
	traceN := make([]int, nFut)
	type gx struct {
		seq   uint64
		ended bool
	}
	gateExit := make([]*gx, nFut)
	createErr := ""
	for _, ev := range s.Events {
		switch ev.Kind {
		case "inv":
			if op, ok := ops[ev.A]; ok {
				r := &rec{op: op, inv: ev.Seq, invAt: time.Duration(ev.N), wokeAt: -1, task: ev.Task}
				recs[ev.A] = r
				order = append(order, r)
				curOp[ev.Task] = r
			}
		case "woke":
			if r := curOp[ev.Task]; r != nil && !r.done && strings.HasPrefix(ev.A, "future.deref") {
				r.wokeAt = time.Duration(ev.N)
				if b, err := strconv.ParseInt(ev.B, 10, 64); err == nil {
					r.blockAt = time.Duration(b)
				}
			}
		case "ret":
			if r, ok := recs[ev.A]; ok {
				r.ret, r.res, r.isErr, r.ctxEnded, r.done = ev.Seq, ev.B, ev.N&1 == 1, ev.N&2 == 2, true
			} else if strings.HasPrefix(ev.A, "create") && ev.N&1 == 1 {
				if ev.N&2 == 0 {
					createErr = ev.B
				} else if out.Discard == "" {
					out.Discard = "creator-context-ended-before-creation"
				}
			}
		case "point":
			if ev.A == "future.body-returned" {
				if i, ok := futIdx[ev.Obj]; ok && bodyRet[i] == 0 {
					bodyRet[i] = ev.Seq
				} else if ok {
					out.Violations = append(out.Violations, Violation{"C10.O1-body-once", "body-returned-twice", "the body of " + futName(i) + " returned twice"})
				}
			}
		case "task-end":
			if i, ok := futIdx[ev.Obj]; ok {
				bodyEnd[i] = ev.Seq
			}
		case "trace":
			for i, f := range w.futs {
				if ev.A == ":body-"+strconv.Itoa(f.Tok) {
					traceN[i]++
				}
			}
		case "inner-never-defined":
			if out.Discard == "" {
				out.Discard = "inner-future-never-defined"
			}
		case "gate-exit":
			for i, f := range w.futs {
				if ev.A == "\"g"+strconv.Itoa(f.Tok)+"\"" {
					gateExit[i] = &gx{ev.Seq, ev.N == 1}
				}
			}
		}
	}
	viol := func(clause, sig, detail string) {
		out.Violations = append(out.Violations, Violation{"C10." + clause, sig, detail})
	}
	if createErr != "" {
		viol("create", "future-creation-failed", "creating a future failed: "+createErr)
	}
	if s.Hang != nil {
		var kinds []string
		for _, r := range order {
			if !r.done {
				kinds = append(kinds, r.op.Kind)
			}
		}
		sort.Strings(kinds)
		viol("O3-hang", "pending:"+strings.Join(uniq(kinds), "+"), "operations never return ("+s.Hang.Kind+"): "+strings.Join(s.Hang.Tasks, "; "))
	} else if s.Aborted != "" {
		out.Discard = "aborted:" + s.Aborted
	}
	line := func(r *rec) string {
		arrow := " -> "
		if r.isErr {
			arrow = " -> error "
		}
		return "[" + strconv.FormatUint(r.inv, 10) + "," + strconv.FormatUint(r.ret, 10) + "] " + r.op.ID + " " + r.op.Src + arrow + r.res
	}
	if s.Aborted == "" && out.Discard == "" {
		for i, f := range w.futs {
			var derefs, dones, cancelleds, cancels []*rec
			for _, r := range order {
				if r.op.Fut != i || !r.done {
					continue
				}
				switch r.op.Kind {
				case "deref":
					derefs = append(derefs, r)
				case "done?":
					dones = append(dones, r)
				case "cancelled?":
					cancelleds = append(cancelleds, r)
				case "cancel":
					cancels = append(cancels, r)
				}
			}
			anyCancelOp := false
			for _, r := range order {
				if r.op.Fut == i && r.op.Kind == "cancel" {
					anyCancelOp = true
				}
			}
			// the body may legitimately end with a timeout-kind error when its context can be cancelled
			cancellable := anyCancelOp || creatorDeadline > 0 || f.Body == "deref-other"
			if f.Inner {
				// f1's context derives from f0's: a cancel that took effect on f0 reaches f1 as well; one
				// that returned false "changes nothing"
				for _, r := range order {
					if r.op.Fut == 0 && r.op.Kind == "cancel" && (!r.done || r.res != "false") {
						cancellable = true
					}
				}
			}
			fn := futName(i)
			// O1: the body is evaluated exactly once
			if traceN[i] > 1 {
				viol("O1-body-once", "body-evaluated-twice", "the body of "+fn+" ran "+strconv.Itoa(traceN[i])+" times")
			}
			if traceN[i] == 0 && !cancellable {
				viol("O1-body-once", "body-never-ran", "the body of "+fn+" never ran although nothing could cancel it")
			}
			// a deref blocks "until the outcome is available or the caller's context ends": one that was still
			// blocked when its deadline passed must be released at that instant, not later
			for _, d := range derefs {
				// (a deref that reached its wait only after the deadline had passed - its thread was not scheduled in
				// between - was never "still blocked when the deadline passed": it returns at once)
				if d.op.Deadline > 0 && d.wokeAt >= 0 && d.wokeAt > d.invAt+d.op.Deadline && d.wokeAt > d.blockAt {
					viol("O3-deref-outlives-context", "deref-released-after-its-deadline", "deref was invoked at "+d.invAt.String()+" with a deadline of "+d.op.Deadline.String()+" but its wait ended only at "+d.wokeAt.String()+": "+line(d))
				}
			}
			// O2/O3: outcome-returning derefs agree, match the body, and do not precede the body's end
			var outcomes []*rec
			for _, d := range derefs {
				// a deref may return something that is not the outcome only once its own context has ended,
				// and then it is a timeout-kind error; everything else it returns is the outcome
				isOutcome := !d.isErr || !d.ctxEnded || (f.NormalOK && d.res == f.Normal) || !strings.Contains(d.res, "timeout")
				if !isOutcome {
					out.Stats["ret-class:own-timeout"]++
					continue
				}
				out.Stats["ret-class:outcome"]++
				outcomes = append(outcomes, d)
				if bodyRet[i] == 0 || d.ret < bodyRet[i] {
					viol("O3-early-outcome", "deref-before-body-finished", "deref returned an outcome before the body finished evaluating: "+line(d)+" (body returned at "+strconv.FormatUint(bodyRet[i], 10)+")")
				}
				if f.NormalOK && d.res == f.Normal && d.isErr != f.NormalErr {
					how := map[bool]string{true: "thrown as an error", false: "returned as a value"}
					viol("O2-outcome", "value-and-error-confused", "the outcome of "+fn+" (body: "+f.Src+") was "+how[d.isErr]+" by this deref but the body "+map[bool]string{true: "threw it", false: "returned it as its value"}[f.NormalErr]+": "+line(d))
				}
				if f.NormalOK && d.res != f.Normal {
					// a body that catches what is thrown inside it may also catch the timeout of its own cancelled
					// context and hand it on as its value
					caughtTimeout := !d.isErr && cancellable && strings.Contains(f.Src, "(catch ") && strings.Contains(d.res, "timeout")
					if !(d.isErr && cancellable && strings.Contains(d.res, "timeout")) && !caughtTimeout {
						sig := "wrong-outcome"
						if d.isErr && strings.Contains(d.res, "timeout") {
							sig = "timeout-without-ended-context"
						}
						viol("O2-outcome", sig, "deref of "+fn+" (body: "+f.Src+") returned "+d.res+" although its own context had not ended: "+line(d))
					}
				}
			}
			for k := 1; k < len(outcomes); k++ {
				if outcomes[k].res != outcomes[0].res || outcomes[k].isErr != outcomes[0].isErr {
					viol("O2-same-outcome", "derefs-disagree", "two derefs of "+fn+" returned different outcomes:\n  "+line(outcomes[0])+"\n  "+line(outcomes[k]))
					break
				}
			}
			// O4: status predicates never go back from true to false (real-time order)
			for _, set := range [][]*rec{dones, cancelleds} {
				for _, a := range set {
					for _, b := range set {
						if a.ret < b.inv && a.res == "true" && b.res == "false" {
							viol("O4-monotone", a.op.Kind+"-went-back", a.op.Kind+" went from true back to false:\n  "+line(a)+"\n  "+line(b))
						}
					}
				}
			}
			// O5: future-done? is true as soon as any deref has returned the outcome
			for _, d := range outcomes {
				for _, q := range dones {
					if d.ret < q.inv && q.res != "true" {
						viol("O5-done-after-deref", "done?-false-after-deref-returned", "future-done? is false although a deref had already returned:\n  "+line(d)+"\n  "+line(q))
					}
				}
			}
			// O6: cancel
			firstTrue := uint64(0) // earliest return of a cancel that returned true
			for _, c := range cancels {
				if c.res == "true" && (firstTrue == 0 || c.ret < firstTrue) {
					firstTrue = c.ret
				}
			}
			for _, c := range cancels {
				otherTrueBefore := false
				overlapOther := false
				for _, c2 := range order {
					if c2 == c || c2.op.Fut != i || c2.op.Kind != "cancel" {
						continue
					}
					if c2.inv < c.ret && (!c2.done || c2.res == "true") {
						otherTrueBefore = true
					}
					if c2.inv < c.ret && (!c2.done || c2.ret > c.inv) {
						overlapOther = true
					}
				}
				completedBefore := ""
				if bodyEnd[i] != 0 && bodyEnd[i] < c.inv {
					completedBefore = "the body's thread had ended at " + strconv.FormatUint(bodyEnd[i], 10)
				}
				for _, d := range outcomes {
					if d.ret < c.inv {
						completedBefore = "a deref had returned the outcome: " + line(d)
					}
				}
				for _, q := range dones {
					if q.ret < c.inv && q.res == "true" {
						completedBefore = "future-done? had returned true: " + line(q)
					}
				}
				if completedBefore != "" && !otherTrueBefore && c.res != "false" {
					viol("O6-cancel-completed", "cancel-true-on-completed-future", "future-cancel returned "+c.res+" on a future that had completed without being cancelled ("+completedBefore+"): "+line(c))
				}
				if bodyRet[i] != 0 && c.ret < bodyRet[i] && !overlapOther && c.res != "true" {
					viol("O6-cancel-running", "cancel-false-on-running-future", "future-cancel returned "+c.res+" while the body was still evaluating (it returned at "+strconv.FormatUint(bodyRet[i], 10)+"): "+line(c))
				}
				if c.res == "true" {
					for _, q := range cancelleds {
						if q.inv > c.ret && q.res != "true" {
							viol("O6-cancelled-flag", "cancelled?-false-after-cancel-true", "future-cancelled? is false after future-cancel returned true:\n  "+line(c)+"\n  "+line(q))
						}
					}
					if g := gateExit[i]; g != nil && g.seq > c.ret && !g.ended {
						viol("O6-cancel-context", "body-context-not-cancelled", "future-cancel returned true at "+strconv.FormatUint(c.ret, 10)+" but the body's context was still alive when it left its gate at "+strconv.FormatUint(g.seq, 10))
					}
				}
				if c.res == "false" && completedBefore != "" && !otherTrueBefore {
					// changes nothing: later derefs keep the outcome (checked by O2), cancelled? stays false
					for _, q := range cancelleds {
						if q.inv > c.ret && q.res == "true" && firstTrue == 0 {
							viol("O6-cancelled-flag", "cancelled?-true-without-successful-cancel", "future-cancelled? is true although no future-cancel returned true:\n  "+line(q))
						}
					}
				}
			}
			// a cancel may return true only if it takes effect while the future is still running, and
			// future-cancelled? is true from that point on. So a future-cancelled? = false invoked after the
			// completion had been observed (an outcome-returning deref returned, or the body's thread ended)
			// proves that the future completed without having been cancelled: no cancel may return true.
			for _, c := range cancels {
				if c.res != "true" {
					continue
				}
				for _, q := range cancelleds {
					if q.res != "false" {
						continue
					}
					ev := ""
					if bodyEnd[i] != 0 && bodyEnd[i] < q.inv {
						ev = "the body's thread had ended at " + strconv.FormatUint(bodyEnd[i], 10)
					}
					for _, d := range outcomes {
						if d.ret < q.inv {
							ev = "a deref had returned the outcome: " + line(d)
						}
					}
					if ev != "" {
						viol("O6-cancel-completed", "cancel-true-although-uncancelled-completion-was-observed",
							"future-cancel returned true although the future had completed without having been cancelled ("+ev+", then "+line(q)+"): "+line(c))
					}
				}
				// likewise a cancel that returned false saw a completed, uncancelled future: no cancel returns true
				for _, c2 := range cancels {
					if c2.res == "false" {
						viol("O6-cancel-completed", "cancel-answers-disagree", "one future-cancel returned false (completed, not cancelled) and another returned true:\n  "+line(c2)+"\n  "+line(c))
					}
				}
			}
			for _, q := range cancelleds {
				if q.res != "true" {
					continue
				}
				justified := false
				for _, c2 := range order {
					if c2.op.Fut == i && c2.op.Kind == "cancel" && c2.inv < q.ret {
						justified = true
					}
				}
				if !justified {
					viol("O6-cancelled-flag", "cancelled?-true-without-cancel", "future-cancelled? is true although no future-cancel had been invoked: "+line(q))
				}
			}
			// a deref that returned while its context was alive and the outcome existed is covered above;
			// a deref returning an own-timeout although its context never ended:
			for _, d := range derefs {
				if d.isErr && !d.ctxEnded && strings.Contains(d.res, "dereferencing") && !cancellable {
					viol("O3-deref-error", "timeout-without-ended-context", "deref returned a timeout although its context had not ended: "+line(d))
				}
			}
			// the whole status history against the sequential specification (subsumes O3-O6 and is complete
			// where those are pattern by pattern)
			if bodyRet[i] != 0 && bodyEnd[i] != 0 {
				isOutcomeRec := map[*rec]bool{}
				for _, d := range outcomes {
					isOutcomeRec[d] = true
				}
				pops := []porcupine.Operation{{ClientId: 0, Input: futIn{"complete"}, Call: int64(bodyRet[i]), Output: "", Return: int64(bodyEnd[i])}}
				var hist []string
				hist = append(hist, "["+strconv.FormatUint(bodyRet[i], 10)+","+strconv.FormatUint(bodyEnd[i], 10)+"] (the body finishes evaluating)")
				for k, r := range order {
					if r.op.Fut != i || !r.done {
						continue
					}
					var in futIn
					outS := r.res
					switch r.op.Kind {
					case "deref":
						in = futIn{"deref"}
						if isOutcomeRec[r] {
							outS = "outcome"
						} else {
							outS = "own-timeout"
						}
					case "done?", "cancelled?", "cancel":
						in = futIn{r.op.Kind}
						if r.isErr {
							continue
						}
					default:
						continue
					}
					pops = append(pops, porcupine.Operation{ClientId: k + 1, Input: in, Call: int64(r.inv), Output: outS, Return: int64(r.ret)})
					hist = append(hist, line(r))
				}
				if len(pops) <= 40 {
					switch porcupine.CheckOperationsTimeout(futModel, pops, 10*time.Second) {
					case porcupine.Ok:
						out.Stats["porcupine_ok"]++
					case porcupine.Unknown:
						out.Stats["porcupine_unknown"]++
					case porcupine.Illegal:
						viol("status-linearizability", "status-history-not-linearizable", "the status history of "+fn+" fits no order of events consistent with real time:\n  "+strings.Join(hist, "\n  "))
					}
				}
			}
		}
	}
	windows := int64(0)
	for i, k := range s.Preempted.Keys {
		if strings.HasPrefix(k, "future.") {
			windows += s.Preempted.Vals[i]
		}
	}
	for i := range s.BlockWakes.Keys {
		windows += s.BlockWakes.Vals[i]
	}
	out.Nontrivial = len(s.tasks) >= 3 && s.Switches > 2 && windows > 0
	if opt.Full {
		out.Sample = map[string]interface{}{"program": rendering, "step_cost": cfg.StepCost.String(), "creator_deadline": creatorDeadline.String(),
			"cfg": map[string]int{"Q": cfg.Q, "WindowBias": cfg.WindowBias, "StarveID": cfg.StarveID, "PCTDepth": cfg.PCTDepth}}
	}
	return out
}

func uniq(xs []string) []string {
	var out []string
	for i, x := range xs {
		if i == 0 || x != xs[i-1] {
			out = append(out, x)
		}
	}
	return out
}
