package lispsim

// C02 — lisp values are immutable.
//
// A pool of named values lives in one environment; collection-producing operations applied to
// earlier pool values define new ones. Every value is snapshotted (canonical print) when it is
// defined and re-read through the environment after every later operation: any difference is a
// violation. Sequential form (one thread, every earlier value re-inspected after every step) and
// concurrent form (2-4 simulated caller threads extend the same parents under a seeded schedule;
// each thread re-inspects everything after each of its operations; race oracle on top).

import (
	"context"
	"strconv"
	"strings"

	"github.com/jig/lisp"
	"github.com/jig/lisp/simhook"
	"github.com/jig/lisp/types"
)

type c02 struct{}

func (c02) ID() string { return "C02" }

func init() { register(c02{}) }

const c02Setup = `(do
  (def p0 [1 2 3])
  (def p1 (conj [1 2 3] 4 5))
  (def p2 '(1 2 3))
  (def p3 (range 0 6))
  (def p4 {:a 1 :b {:c [1 2 3]}})
  (def p5 (hash-set "a" "b"))
  (def p6 (list 1 2 3))
  (def p7 (vec '(7 8 9)))
  (def p8 [])
  (def p9 ())
  (def p10 [[1 2] [3 4] [5 6]])
  (def p11 {:a [1 {:b [2 3]}] :m {:v [7 8]}})
  (def p12 (vec (rest (rest (rest '(1 2 3))))))
  (def p13 ((fn [& more] (vec more))))
  (def p14 (hash-set "a" "b" "c"))
  (def p15 '(do (cond false 1 true 2)))
  (def p16 '(let [a 1] (or nil a)))
  (def p17 (fn [x] (cond x 1 true 2)))
  (def p18 (fn [x] (do (+ x 1) (-> x (+ 1) (* 2)))))
  (def p19 {:a {} :b {:c {}} :z 1})
  (def p20 (let [e {} f (hash-map)] {:a e :b {:c f} :e e :f f}))
  (def p21 (unbase64 "AQIDBAUGBwgJCgsMDQ4PEA=="))
  (def p22 (str2binary "{\"a\": 1 /* c */, \"b\": [1, 2] // x\n}"))
  (def p23 (vec (range 0 12)))
  (def p24 (apply list (range 0 10)))
  (defmacro m-conj (fn [xs y] (list 'conj xs y)))
  (defmacro m-splice (fn [xs ys] (list 'concat xs ys)))
  nil)`

var c02SeedTypes = []string{"vec", "vec", "list", "vec", "map", "set", "list", "vec", "vec", "list", "vec2", "map2", "vec", "vec", "set", "code", "code", "fn", "fn", "map3", "map3", "bin", "bin", "vec", "list"}

type strTable struct{ K, V []string }

//go:norace
func (t *strTable) Get(k string) (string, bool) {
	for i := range t.K {
		if t.K[i] == k {
			return t.V[i], true
		}
	}
	return "", false
}

//go:norace
func (t *strTable) Set(k, v string) {
	for i := range t.K {
		if t.K[i] == k {
			t.V[i] = v
			return
		}
	}
	t.K = append(t.K, k)
	t.V = append(t.V, v)
}

//go:norace
func (t *strTable) Len() int { return len(t.K) }

//go:norace
func (t *strTable) At(i int) (string, string) { return t.K[i], t.V[i] }

type c02Val struct {
	Name, Type, Origin string
	Parents            []string
}

type c02Op struct {
	ExpectEqual string // the result must be equal to the snapshot of this pool value ("" = no expectation)
	Name        string // pool name defined by this op
	Kind        string
	Src         string
	ast         types.MalType
	val         *c02Val
}

// snap! records the canonical print of its argument; within one operation each snapshot must start
// with the previous one (what was already stored in the growing vector must not change).
//
//go:norace
func (w *c02World) Snap(ctx context.Context, a []types.MalType) (types.MalType, error) {
	w.s.Rec("snap", canonQuiet(a, 0), "", 0)
	return nil, nil
}

type c02World struct {
	s       *Sim
	env     types.EnvType
	snap    strTable // name -> canonical print at definition
	origin  strTable // name -> op kind that defined it
	threads [][]*c02Op
	ctxs    []context.Context
	// first mutation noticed (written by the token holder only)
	mutName, mutWas, mutNow, mutBy, mutByKind string
	mutOp                                     *c02Op
	nMut                                      int
	checks                                    int64
	vals                                      map[string]*c02Val // generation-time registry (read-only during the run)
}

//go:norace
func (w *c02World) noteMut(name, was, now, by, byKind string, op *c02Op) {
	w.nMut++
	if w.mutName == "" {
		w.mutName, w.mutWas, w.mutNow, w.mutBy, w.mutByKind, w.mutOp = name, was, now, by, byKind, op
	}
}

// c02Builtin maps an operation kind to the builtin that does the work.
func c02Builtin(kind string) string {
	switch kind {
	case "conj-vec", "conj-vec2", "apply-conj", "closure-conj", "macro-conj", "update-in":
		return "conj"
	case "concat", "concat3", "apply-concat", "qq-splice", "qq-splice2", "qq-vec", "macro-splice":
		return "concat"
	}
	if kind == "captured-binding" {
		return "closure-sees-a-changed-binding"
	}
	return kind
}

// isAncestor reports whether name is among the (transitive) parents of v.
func (w *c02World) isAncestor(name string, v *c02Val, depth int) bool {
	if v == nil || depth > 50 {
		return false
	}
	for _, p := range v.Parents {
		if p == name || w.isAncestor(name, w.vals[p], depth+1) {
			return true
		}
	}
	return false
}

// inspect re-reads every value defined so far and compares it with its snapshot.
func (w *c02World) inspect(by *c02Op) {
	n := w.snap.Len()
	for i := 0; i < n; i++ {
		name, was := w.snap.At(i)
		v, err := w.env.Get(types.Symbol{Val: name})
		if err != nil {
			continue
		}
		now := canonValQuiet(v)
		w.countCheck()
		if now != was {
			byName, byKind := "(end of run)", "end"
			if by != nil {
				byName, byKind = by.Src, by.Kind
			}
			w.noteMut(name, was, now, byName, byKind, by)
			w.snap.Set(name, now) // report each change once
		}
	}
}

//go:norace
func (w *c02World) countCheck() { w.checks++ }

func (w *c02World) threadFn(ti int) func(*Task) {
	return func(t *Task) {
		for _, op := range w.threads[ti] {
			w.s.Rec("inv", op.Name, op.Kind, 0)
			res, err := lisp.EVAL(w.ctxs[ti], op.ast, w.env)
			recRet(w.s, op.Name, nil, err, false)
			if err == nil {
				got := canonValQuiet(res)
				w.snap.Set(op.Name, got)
				w.origin.Set(op.Name, op.Kind)
				if op.ExpectEqual != "" {
					if want, ok := w.snap.Get(op.ExpectEqual); ok && got != want && got != ":err" {
						w.noteMut(op.ExpectEqual, want, got, op.Src, "captured-binding", op)
					}
				}
			}
			w.inspect(op)
		}
	}
}

type c02Gen struct {
	tp   *Tape
	pool []*c02Val
	tok  int
	last *c02Val // parent used by the previous operation (fan-out bias)
	nDef int
}

func (g *c02Gen) pick(types_ ...string) *c02Val {
	var cands []*c02Val
	for _, v := range g.pool {
		for _, t := range types_ {
			if v.Type == t {
				cands = append(cands, v)
			}
		}
	}
	if len(cands) == 0 {
		return g.pool[0]
	}
	if g.last != nil && g.tp.Chance(LaneWork, 1, 2) {
		for _, t := range types_ {
			if g.last.Type == t {
				return g.last
			}
		}
	}
	// bias towards recent values and towards the seeds with spare capacity
	if g.tp.Chance(LaneWork, 1, 3) && len(cands) > 3 {
		cands = cands[len(cands)-3:]
	}
	return cands[g.tp.Draw(LaneWork, len(cands))]
}

func (g *c02Gen) next(prefix string) *c02Op {
	g.tok++
	k := strconv.Itoa(1000 + g.tok)
	kinds := []string{"conj-vec", "conj-vec2", "conj-list", "concat", "concat3", "subvec", "subvec-tail", "cons", "assoc-vec", "assoc-map", "conj-map", "conj-set",
		"dissoc", "rest", "vec", "seq", "take", "drop", "take-last", "drop-last", "merge", "rename-keys", "with-meta", "assoc-in", "update", "update-in",
		"apply-conj", "apply-concat", "map", "qq-splice", "qq-splice2", "qq-vec", "closure-conj", "macro-conj", "macro-splice",
		"concat-empty-head", "concat-empty-head2", "apply-concat-empty-head", "update-in-vec", "assoc-in-vec", "update-in-mixed", "assoc-in-mixed", "update-vec",
		"map-rest-retain", "apply-rest-retain", "reduce-rest-retain",
		"drain-vec", "drain-rest", "rest-param-vec", "dissoc-multi", "dissoc-multi-set", "dissoc-multi-present", "catch-poolname", "let-shadow-poolname",
		"eval-code", "call-fn-value", "let-shadow-closure", "let-shadow-closure-fn", "conj-set-multi",
		"marshal-error", "closure-from-apply", "closure-from-map", "closure-from-swap", "assoc-vec-end",
		"assoc-in-empty", "assoc-in-empty2", "update-in-empty", "unbase64", "base64-roundtrip",
		"def-fn-with-meta", "json-decode-proto-map", "json-decode-proto-vec", "merge-small-big", "fn-meta-shared",
		"first-nested", "nth-nested", "get-in-nested", "get-nested", "vals", "keys", "apply-vector", "apply-list", "apply-hash-map",
		"json-decode-binary", "error-string-of", "str-of-error", "binary-of-str", "let-two-futures", "let-three-futures",
		"swap-rest-retain-retry", "swap-rest-retain-retry2"}
	weights := []int{8, 3, 2, 6, 2, 5, 2, 2, 2, 2, 1, 1, 1, 3, 3, 2, 1, 1, 1, 1, 1, 1, 2, 1, 1, 2, 3, 2, 1, 4, 3, 2, 2, 2, 2,
		3, 2, 2, 3, 2, 2, 2, 2,
		2, 1, 1,
		3, 2, 2, 3, 2, 1, 2, 1,
		2, 2, 3, 1, 1,
		2, 2, 2, 1, 2,
		2, 1, 1, 2, 1,
		2, 2, 1, 2, 1,
		2, 2, 2, 1, 1, 1, 2, 1, 1,
		2, 2, 1, 1, 3, 2,
		2, 1}
	kind := kinds[g.tp.Weighted(LaneWork, weights)]
	var src, typ string
	expectParent := ""
	var parents []*c02Val
	seq := func() *c02Val { v := g.pick("vec", "list"); parents = append(parents, v); return v }
	vec := func() *c02Val { v := g.pick("vec"); parents = append(parents, v); return v }
	lst := func() *c02Val { v := g.pick("list"); parents = append(parents, v); return v }
	mp := func() *c02Val { v := g.pick("map"); parents = append(parents, v); return v }
	switch kind {
	case "let-two-futures":
		// two threads started in one local scope read different names of it at the same time
		a, b := seq(), seq()
		src, typ = "(let [va "+a.Name+" vb "+b.Name+" n1 1 n2 2] (let [f1 (future (do (count va) (count va) (conj va n1))) f2 (future (do (count vb) (count vb) (first vb) n2))] (do (count vb) (list (count @f1) @f2))))", "other"
	case "let-three-futures":
		a := vec()
		src, typ = "(let [va "+a.Name+" k1 "+k+" k2 :b"+k+" k3 \"c"+k+"\"] (map deref (list (future (conj va k1)) (future (conj va k2)) (future (do k3 k3 (conj va k3))))))", "other"
	case "json-decode-binary":
		// the document is a binary value (it may hold comments, which JSON does not have: then decoding fails)
		v := g.pick("bin")
		parents = append(parents, v)
		src, typ = "(json-decode {} "+v.Name+")", "map"
	case "error-string-of":
		// an error object that wraps a pool sequence is rendered as text
		v := g.pick("vec", "list")
		parents = append(parents, v)
		src, typ = "(error-string (new-error "+v.Name+"))", "other"
	case "str-of-error":
		v := g.pick("vec", "list", "map")
		parents = append(parents, v)
		src, typ = "(try (throw "+v.Name+") (catch err (list (str err) (pr-str (new-error err)))))", "other"
	case "binary-of-str":
		src, typ = "(str2binary (str \"{\\\"k\\\": "+k+" /* "+k+" */}\"))", "bin"
	case "first-nested":
		// a value stored inside another collection is taken out (and extended by later operations)
		v := g.pick("vec2")
		parents = append(parents, v)
		src, typ = "(first "+v.Name+")", "vec"
	case "nth-nested":
		v := g.pick("vec2")
		parents = append(parents, v)
		src, typ = "(nth "+v.Name+" 1)", "vec"
	case "get-in-nested":
		v := g.pick("map2")
		parents = append(parents, v)
		src, typ = "(get-in "+v.Name+" [:m :v])", "vec"
	case "get-nested":
		v := g.pick("map2")
		parents = append(parents, v)
		src, typ = "(get "+v.Name+" :m)", "map"
	case "vals":
		src, typ = "(vals "+mp().Name+")", "list"
	case "keys":
		src, typ = "(keys "+mp().Name+")", "list"
	case "apply-vector":
		src, typ = "(apply vector "+seq().Name+")", "vec"
	case "apply-list":
		src, typ = "(apply list "+k+" "+seq().Name+")", "list"
	case "apply-hash-map":
		src, typ = "(apply hash-map :k"+k+" "+k+" (list :a "+vec().Name+"))", "map"
	case "def-fn-with-meta":
		// a function that carries a pool map as metadata is bound to a name
		src, typ = "(do (def zz-fn-"+k+" (with-meta (fn [x] x) "+mp().Name+")) (meta zz-fn-"+k+"))", "map"
	case "fn-meta-shared":
		m := mp()
		src, typ = "(do (def zz-f1-"+k+" (with-meta (fn [x] 1) "+m.Name+")) (def zz-f2-"+k+" (with-meta (fn [x] 2) "+m.Name+")) (merge (meta zz-f1-"+k+") {}))", "map"
	case "json-decode-proto-map":
		// the first argument is a prototype: only its type matters
		src, typ = "(json-decode "+mp().Name+" \"{\\\"j"+k+"\\\": "+k+"}\")", "map"
	case "json-decode-proto-vec":
		src, typ = "(json-decode "+vec().Name+" \"["+k+", 2]\")", "vec"
	case "merge-small-big":
		// the left operand has fewer entries than the right one, and a key the right one lacks
		src, typ = "(merge {:only-left"+k+" "+k+"} "+mp().Name+")", "map"
	case "assoc-in-empty":
		// the path ends in an empty map that is a value of its own, stored inside the parent
		v := g.pick("map3")
		parents = append(parents, v)
		src, typ = "(assoc-in "+v.Name+" [:a :k"+k+"] "+k+")", "map3"
	case "assoc-in-empty2":
		v := g.pick("map3")
		parents = append(parents, v)
		src, typ = "(assoc-in "+v.Name+" [:b :c :k"+k+"] "+k+")", "map3"
	case "update-in-empty":
		v := g.pick("map3")
		parents = append(parents, v)
		src, typ = "(update-in "+v.Name+" [:a] (fn [m] (assoc m :u"+k+" "+k+")))", "map3"
	case "unbase64":
		// binary values: a later decoding must not write into an earlier one (payloads of 16, 12, 8, 5, 3 and 1 bytes)
		pl := []string{"EBESExQVFhcYGRobHB0eHw==", "ICEiIyQlJicoKSor", "MDEyMzQ1Njc=", "QEFCQ0Q=", "UFFS", "YA=="}[g.tp.Draw(LaneWork, 6)]
		src, typ = "(unbase64 \""+pl+"\")", "bin"
	case "base64-roundtrip":
		v := g.pick("bin")
		parents = append(parents, v)
		src, typ = "(unbase64 (base64 "+v.Name+"))", "bin"
	case "conj-vec":
		src, typ = "(conj "+vec().Name+" "+k+")", "vec"
	case "conj-vec2":
		src, typ = "(conj "+vec().Name+" "+k+" :x"+k+")", "vec"
	case "conj-list":
		src, typ = "(conj "+lst().Name+" "+k+")", "list"
	case "concat":
		src, typ = "(concat "+seq().Name+" "+seq().Name+")", "list"
	case "concat3":
		src, typ = "(concat "+seq().Name+" (list "+k+") "+seq().Name+")", "list"
	case "subvec":
		src, typ = "(subvec "+vec().Name+" 0 "+strconv.Itoa(1+g.tp.Draw(LaneWork, 3))+")", "vec"
	case "subvec-tail":
		src, typ = "(subvec "+vec().Name+" 1)", "vec"
	case "cons":
		src, typ = "(cons "+k+" "+seq().Name+")", "list"
	case "assoc-vec":
		src, typ = "(assoc "+vec().Name+" 0 "+k+")", "vec"
	case "assoc-map":
		src, typ = "(assoc "+mp().Name+" :k"+k+" "+k+")", "map"
	case "conj-map":
		src, typ = "(conj "+mp().Name+" :c"+k+" "+k+")", "map"
	case "conj-set":
		v := g.pick("set")
		parents = append(parents, v)
		src, typ = "(conj "+v.Name+" \"s"+k+"\")", "set"
	case "dissoc":
		src, typ = "(dissoc "+mp().Name+" :a)", "map"
	case "rest":
		src, typ = "(rest "+seq().Name+")", "list"
	case "vec":
		src, typ = "(vec "+seq().Name+")", "vec"
	case "seq":
		src, typ = "(seq "+seq().Name+")", "list"
	case "take":
		src, typ = "(take 2 "+seq().Name+")", "list"
	case "drop":
		src, typ = "(drop 1 "+seq().Name+")", "list"
	case "take-last":
		src, typ = "(take-last 2 "+seq().Name+")", "list"
	case "drop-last":
		src, typ = "(drop-last 1 "+seq().Name+")", "list"
	case "merge":
		src, typ = "(merge "+mp().Name+" "+mp().Name+")", "map"
	case "rename-keys":
		src, typ = "(rename-keys "+mp().Name+" {:a :z"+k+"})", "map"
	case "with-meta":
		v := g.pick("vec", "list", "map")
		parents = append(parents, v)
		src, typ = "(with-meta "+v.Name+" {:m "+k+"})", v.Type
	case "assoc-in":
		src, typ = "(assoc-in "+mp().Name+" [:b :c] "+k+")", "map"
	case "update":
		src, typ = "(update "+mp().Name+" :a (fn [x] "+k+"))", "map"
	case "update-in":
		src, typ = "(update-in "+mp().Name+" [:b :c] (fn [x] (conj x "+k+")))", "map"
	case "apply-conj":
		src, typ = "(apply conj "+vec().Name+" (list "+k+" :y"+k+"))", "vec"
	case "apply-concat":
		src, typ = "(apply concat (list "+seq().Name+" "+seq().Name+"))", "list"
	case "map":
		src, typ = "(map (fn [x] x) "+seq().Name+")", "list"
	case "qq-splice":
		src, typ = "`(0 ~@"+seq().Name+" ~"+k+")", "list"
	case "qq-splice2":
		src, typ = "`(~@"+seq().Name+" ~@"+seq().Name+" "+k+")", "list"
	case "qq-vec":
		src, typ = "`[~@"+seq().Name+" "+k+"]", "vec"
	case "closure-conj":
		src, typ = "(let [v "+vec().Name+" f (fn [] v)] (conj (f) "+k+"))", "vec"
	case "macro-conj":
		src, typ = "(m-conj "+vec().Name+" "+k+")", "vec"
	case "macro-splice":
		src, typ = "(m-splice "+seq().Name+" (list "+k+"))", "list"
	case "concat-empty-head":
		src, typ = "(concat [] "+seq().Name+" (list "+k+"))", "list"
	case "concat-empty-head2":
		src, typ = "(concat () [] "+seq().Name+" "+seq().Name+")", "list"
	case "apply-concat-empty-head":
		src, typ = "(apply concat (list p8 "+seq().Name+" (list "+k+")))", "list"
	case "update-in-vec":
		v := g.pick("vec2")
		parents = append(parents, v)
		src, typ = "(update-in "+v.Name+" [0 1] (fn [x] "+k+"))", "vec2"
	case "assoc-in-vec":
		v := g.pick("vec2")
		parents = append(parents, v)
		src, typ = "(assoc-in "+v.Name+" [1 0] "+k+")", "vec2"
	case "update-in-mixed":
		v := g.pick("map2")
		parents = append(parents, v)
		src, typ = "(update-in "+v.Name+" [:a 1 :b 0] (fn [x] "+k+"))", "map2"
	case "assoc-in-mixed":
		v := g.pick("map2")
		parents = append(parents, v)
		src, typ = "(assoc-in "+v.Name+" [:m :v 1] "+k+")", "map2"
	case "update-vec":
		v := g.pick("vec2")
		parents = append(parents, v)
		src, typ = "(update "+v.Name+" 2 (fn [x] (conj x "+k+")))", "vec2"
	case "drain-vec":
		// an empty vector cut out of a longer sequence: its slice may keep spare capacity
		src, typ = "(vec (rest (rest (rest (take 3 "+seq().Name+")))))", "vec"
	case "drain-rest":
		src, typ = "(vec (drop 9 "+seq().Name+"))", "vec"
	case "rest-param-vec":
		src, typ = "((fn [a & more] (vec more)) "+k+")", "vec"
	case "dissoc-multi":
		// first key absent, later key present
		src, typ = "(dissoc "+mp().Name+" :zz-absent"+k+" :a :b)", "map"
	case "dissoc-multi-set":
		v := g.pick("set")
		parents = append(parents, v)
		src, typ = "(dissoc "+v.Name+" \"zz-absent\" \"a\" \"b\")", "set"
	case "dissoc-multi-present":
		src, typ = "(dissoc "+mp().Name+" :a :zz-absent :b)", "map"
	case "catch-poolname":
		// the catch symbol has the name of a pool value: the binding it shadows must be untouched afterwards
		v := g.pick("vec", "list", "map")
		parents = append(parents, v)
		src, typ = "(try (throw "+k+") (catch "+v.Name+" (list "+v.Name+" "+k+")))", "list"
	case "let-shadow-poolname":
		v := g.pick("vec", "list", "map")
		parents = append(parents, v)
		src, typ = "(let ["+v.Name+" (list "+k+")] (conj "+v.Name+" 1))", "list"
	case "eval-code":
		// code held as data is evaluated: macro expansion must not rewrite the stored form
		v := g.pick("code")
		parents = append(parents, v)
		src, typ = "(eval "+v.Name+")", "other"
	case "call-fn-value":
		v := g.pick("fn")
		parents = append(parents, v)
		src, typ = "("+v.Name+" "+k+")", "other"
	case "let-shadow-closure":
		// a closure captured x; an inner let shadows x and then calls the closure: it must still see the outer value
		v := g.pick("vec")
		parents = append(parents, v)
		src, typ = "(let [x "+v.Name+" g (fn [] x)] (let [x (conj x "+k+")] (g)))", "vec"
		expectParent = v.Name
	case "let-shadow-closure-fn":
		v := g.pick("vec", "list")
		parents = append(parents, v)
		src, typ = "((fn [x] (let [g (fn [] x)] (let [x (cons "+k+" x)] (g)))) "+v.Name+")", v.Type
		expectParent = v.Name
	case "conj-set-multi":
		v := g.pick("set")
		parents = append(parents, v)
		src, typ = "(conj "+v.Name+" \"s"+k+"\" \"t"+k+"\")", "set"
	case "marshal-error":
		// an error object wrapping a pool map is turned into a hash-map: the wrapped map must stay as it was
		src, typ = "(hash-map (new-error "+mp().Name+"))", "map"
	case "closure-from-apply":
		// a closure made inside a function that was called through apply outlives that call
		v := g.pick("vec", "list", "map")
		parents = append(parents, v)
		src, typ = "(let [c (apply (fn [n] (fn [] n)) (list "+v.Name+"))] (do (apply (fn [n] n) (list "+k+")) (c)))", v.Type
		expectParent = v.Name
	case "closure-from-map":
		v := g.pick("vec", "list", "map")
		parents = append(parents, v)
		src, typ = "(let [cs (map (fn [n] (fn [] n)) (list "+v.Name+" "+k+"))] (do (map (fn [n] (+ n 1)) (list 1 2)) ((first cs))))", v.Type
		expectParent = v.Name
	case "closure-from-swap":
		v := g.pick("vec", "list", "map")
		parents = append(parents, v)
		src, typ = "(let [a (atom nil)] (do (swap! a (fn [old n] (fn [] n)) "+v.Name+") (swap! (atom 0) (fn [old n] n) "+k+") ((deref a))))", v.Type
		expectParent = v.Name
	case "assoc-vec-end":
		// index one past the end (an error today; should it ever append, it must not write into the parent)
		v := vec()
		src, typ = "(assoc "+v.Name+" (count "+v.Name+") "+k+")", "vec"
	case "map-rest-retain":
		// the rest list of a variadic callback is kept while map goes on: what was stored must not change
		src, typ = "(let [acc (atom [])] (map (fn [& xs] (do (swap! acc conj xs) (snap! @acc) xs)) "+seq().Name+"))", "list"
	case "apply-rest-retain":
		src, typ = "(let [acc (atom [])] (do (apply (fn [& xs] (do (swap! acc conj xs) (snap! @acc))) "+seq().Name+") (apply (fn [& xs] (do (swap! acc conj xs) (snap! @acc))) "+seq().Name+") @acc))", "vec"
	case "swap-rest-retain-retry":
		// the argument list of an update function is kept; swap! then applies the function again (its first
		// application invalidated the value it had read): what was kept the first time must not change
		v := g.pick("vec", "list", "map")
		parents = append(parents, v)
		src, typ = "(let [acc (atom []) a (atom 0) n (atom 0)] (do (swap! a (fn [& all] (do (swap! acc conj all) (snap! @acc) (if (< @n 1) (do (swap! n inc) (reset! a "+k+"))) (first all))) "+v.Name+") @acc))", "vec"
	case "swap-rest-retain-retry2":
		src, typ = "(let [acc (atom []) a (atom ()) n (atom 0)] (do (swap! a (fn [& all] (do (swap! acc conj all) (snap! @acc) (if (< @n 2) (do (swap! n inc) (reset! a (list "+k+" @n)))) (first all))) "+seq().Name+" "+k+") (conj @acc @a)))", "vec"
	case "reduce-rest-retain":
		src, typ = "(let [acc (atom [])] (reduce (fn [& xs] (do (swap! acc conj xs) (snap! @acc) (first xs))) 0 "+seq().Name+"))", "other"
	}
	g.nDef++
	name := prefix + strconv.Itoa(g.nDef)
	v := &c02Val{Name: name, Type: typ, Origin: kind}
	for _, p := range parents {
		v.Parents = append(v.Parents, p.Name)
	}
	if len(parents) > 0 {
		g.last = parents[0]
	}
	full := "(def " + name + " (try " + src + " (catch zz :err)))"
	return &c02Op{Name: name, Kind: kind, Src: full, ast: mustRead(full), val: v, ExpectEqual: expectParent}
}

func (c02) Run(tp *Tape, opt RunOpt) *RunOut {
	out := &RunOut{prop: "C02", Stats: map[string]int64{}}
	nThreads := 1
	if tp.Chance(LaneWork, 1, 2) {
		nThreads = 2 + tp.Draw(LaneWork, 3)
	}
	cfg := SimCfg{Q: []int{1, 2, 4, 8, 32}[tp.Draw(LaneWork, 5)], StarveID: -1, FullLog: opt.Full}
	if tp.Chance(LaneWork, 1, 4) {
		// PCT policy instead of the random walk: priorities with 0-2 change points
		cfg.PCTDepth = 1 + tp.Draw(LaneWork, 3)
		cfg.PCTSpan = []int{30, 120, 600}[tp.Draw(LaneWork, 3)]
	}
	s := NewSim(tp, cfg)
	h := &Harness{S: s}
	e := NewEnv()
	h.Install(e)
	if _, err := lisp.EVAL(context.Background(), mustRead(c02Setup), e); err != nil {
		panic("c02 setup: " + err.Error())
	}
	w := &c02World{s: s, env: e, vals: map[string]*c02Val{}}
	e.Set(types.Symbol{Val: "snap!"}, types.Func{Fn: w.Snap})
	g := &c02Gen{tp: tp}
	for i, t := range c02SeedTypes {
		name := "p" + strconv.Itoa(i)
		g.pool = append(g.pool, &c02Val{Name: name, Type: t, Origin: "seed"})
		w.vals[name] = g.pool[len(g.pool)-1]
		v, _ := e.Get(types.Symbol{Val: name})
		w.snap.Set(name, canon(v))
		w.origin.Set(name, "seed")
	}
	var rendering []string
	total := 3 + tp.Draw(LaneWork, 38)
	if nThreads > 1 {
		total = 2*nThreads + tp.Draw(LaneWork, 20)
	}
	w.threads = make([][]*c02Op, nThreads)
	for k := 0; k < total; k++ {
		ti := k % nThreads
		op := g.next("q")
		w.threads[ti] = append(w.threads[ti], op)
		w.vals[op.Name] = op.val
		if nThreads == 1 {
			// sequential: later operations may build on this value
			g.pool = append(g.pool, op.val)
		} else if tp.Chance(LaneWork, 1, 3) {
			// concurrent: only the issuing thread's later operations could rely on it; keep the pool to
			// values that certainly exist, except for this thread-local chain
			_ = ti
		}
		rendering = append(rendering, "thread "+strconv.Itoa(ti)+": "+op.Src)
	}
	for ti := 0; ti < nThreads; ti++ {
		ctx, cancel := context.WithCancel(context.Background())
		s.AddCancel(cancel)
		w.ctxs = append(w.ctxs, ctx)
	}
	simhook.Install(s)
	for ti := 0; ti < nThreads; ti++ {
		s.Go("thread"+strconv.Itoa(ti), w.threadFn(ti))
	}
	s.Run()
	simhook.Install(nil)
	out.collect(s)
	if s.Hang != nil {
		out.Violations = append(out.Violations, Violation{"C02.hang", s.Hang.Kind, strings.Join(s.Hang.Tasks, "; ")})
	} else if s.Aborted != "" {
		out.Discard = "aborted:" + s.Aborted
	} else {
		w.inspect(nil)
	}
	// prefix stability of snap! sequences (per task, reset at every operation boundary)
	prev := map[int]string{}
	for _, ev := range s.Events {
		switch ev.Kind {
		case "inv":
			delete(prev, ev.Task)
		case "snap":
			out.Stats["retained_value_comparisons"]++
			if p, ok := prev[ev.Task]; ok {
				// "[a b]" must start with "[a" : strip the closing bracket of the earlier print
				if !strings.HasPrefix(ev.A, strings.TrimSuffix(p, "]")) {
					out.Violations = append(out.Violations, Violation{"C02.mutated", "value-retained-inside-a-callback-changed",
						"a value stored while a builtin was still calling back changed afterwards: the collection printed\n    " + p + "\n  and one callback later\n    " + ev.A})
				}
			}
			prev[ev.Task] = ev.A
		}
	}
	out.Violations = firstPerClause(out.Violations)
	out.Stats["snapshot_comparisons"] += w.checks
	if w.nMut > 0 {
		orig, _ := w.origin.Get(w.mutName)
		form := "sequential"
		if nThreads > 1 {
			form = "concurrent"
		}
		rel := "changes-a-value-derived-from-the-same-parent"
		if w.mutOp != nil && w.isAncestor(w.mutName, w.mutOp.val, 0) {
			rel = "changes-the-value-it-was-derived-from"
		}
		sig := form + ":" + c02Builtin(w.mutByKind) + "-" + rel
		if form == "concurrent" {
			// which thread's operation did it is not known here: one signature for the concurrent form
			sig = "concurrent:a-bound-value-changed"
			if w.mutByKind == "captured-binding" {
				sig = "concurrent:closure-sees-a-changed-binding"
			}
		}
		out.Violations = append(out.Violations, Violation{"C02.mutated", sig,
			"the value bound to " + w.mutName + " (made by " + orig + ") changed from\n    " + w.mutWas + "\n  to\n    " + w.mutNow + "\n  noticed after: " + w.mutBy + "\n  (" + strconv.Itoa(w.nMut) + " value change(s) in this run)"})
	}
	out.Stats["form:threads="+strconv.Itoa(nThreads)]++
	// non-trivial: some parent was extended at least twice (the failing shape needs fan-out)
	fan := map[string]int{}
	maxFan := 0
	for _, th := range w.threads {
		for _, op := range th {
			for _, p := range op.val.Parents {
				fan[p]++
				if fan[p] > maxFan {
					maxFan = fan[p]
				}
			}
		}
	}
	out.Nontrivial = maxFan >= 2
	// distinct = distinct operation sequences (and interleavings in the concurrent form)
	hsh := s.InterleavingHash()
	for _, r := range rendering {
		hsh = fnv(hsh, r)
	}
	out.ILHash = hsh
	if opt.Full {
		out.Sample = map[string]interface{}{"threads": nThreads, "operations": rendering, "max_fan_out": maxFan}
	}
	return out
}
