//go:build !race

package lispsim

const raceBuild = false

func raceOff()        {}
func raceOn()         {}
func raceErrors() int { return 0 }
