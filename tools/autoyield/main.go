// autoyield rewrites Go source files of jig/lisp in a scratch copy: it inserts a simhook.Yield call
// before every statement of every function body and a simhook.Await readiness probe before every
// x.Lock() / x.RLock() statement, so that the deterministic simulator can switch tasks at statement
// granularity in the rewritten files and a task never blocks for real on a mutex another parked task
// holds. Without a handler installed the inserted calls do nothing; program semantics are unchanged.
//
// Every Lock/RLock statement is followed by simhook.Yield("auto.locked") and every Unlock/RUnlock (also a
// deferred one) by simhook.Yield("auto.unlocked"): the simulator counts the locks a task holds and does
// not preempt it at plain yields meanwhile (only where it goes on to acquire another lock), so no task is
// ever parked holding a mutex that a goroutine outside the simulator's control could block on.
//
// A send statement on a buffered channel is preceded by a readiness probe (room in the buffer), so that a
// task that would block there waits in the simulator, where the wait can be scheduled and, if it never
// ends, reported.
//
// Where nothing may be inserted (the caller does not hold the scheduler's token there):
//   - before a statement that itself calls simhook.* (TaskStart, AfterBlock, ... come first),
//   - before a select statement and right after a statement calling simhook.BeforeBlock or simhook.Spawn,
//   - in the body of a `go func(){...}()` before its simhook.TaskStart call (bodies without one are left alone),
//   - as the first statement of a select case.
//
// usage: autoyield file.go...   (rewrites in place)
package main

import (
	"bytes"
	"fmt"
	"go/ast"
	"go/format"
	"go/parser"
	"go/token"
	"os"
	"path/filepath"
	"strconv"
	"strings"
)

var fset *token.FileSet
var base string
var inserted, locks, sends int

// loopsOnly: insert nothing but a simhook.Yield("auto.loop:<file>:<line>") at the head of every for-loop
// body (files given as "-loops path"). For big, hot files where statement-level yields would cost too much
// but a Go-level loop that never reaches another hook must still be visible to the simulator.
var loopsOnly bool

func loopYield(pos token.Pos) ast.Stmt {
	line := fset.Position(pos).Line
	return &ast.ExprStmt{X: &ast.CallExpr{
		Fun:  &ast.SelectorExpr{X: ast.NewIdent("simhook"), Sel: ast.NewIdent("Yield")},
		Args: []ast.Expr{&ast.BasicLit{Kind: token.STRING, Value: strconv.Quote("auto.loop:" + base + ":" + strconv.Itoa(line))}, ast.NewIdent("nil")},
	}}
}

// instrumentLoops puts a yield at the head of every for/range body of a function, except loops whose body
// already starts with a simhook call (the evaluation loop has its Step hook there).
func instrumentLoops(body *ast.BlockStmt) {
	ast.Inspect(body, func(n ast.Node) bool {
		var b *ast.BlockStmt
		switch x := n.(type) {
		case *ast.ForStmt:
			b = x.Body
		case *ast.RangeStmt:
			b = x.Body
		}
		if b != nil && !(len(b.List) > 0 && callsSimhook(b.List[0], "")) {
			b.List = append([]ast.Stmt{loopYield(b.Pos())}, b.List...)
			inserted++
		}
		return true
	})
}

func callsSimhook(n ast.Node, name string) bool {
	found := false
	ast.Inspect(n, func(x ast.Node) bool {
		if _, ok := x.(*ast.FuncLit); ok && x != n {
			return false // a nested function literal runs later
		}
		if c, ok := x.(*ast.CallExpr); ok {
			if s, ok := c.Fun.(*ast.SelectorExpr); ok {
				if id, ok := s.X.(*ast.Ident); ok && id.Name == "simhook" && (name == "" || s.Sel.Name == name) {
					found = true
				}
			}
		}
		return true
	})
	return found
}

func yieldStmt(pos token.Pos) ast.Stmt {
	line := fset.Position(pos).Line
	return &ast.ExprStmt{X: &ast.CallExpr{
		Fun:  &ast.SelectorExpr{X: ast.NewIdent("simhook"), Sel: ast.NewIdent("Yield")},
		Args: []ast.Expr{&ast.BasicLit{Kind: token.STRING, Value: strconv.Quote("auto:" + base + ":" + strconv.Itoa(line))}, ast.NewIdent("nil")},
	}}
}

// lockProbe returns the probe statement for `recv.Lock()` / `recv.RLock()`: simhook.AwaitLock resolves the
// mutex from its address in the calling goroutine, so that the readiness probe the scheduler evaluates
// later reads no program variable (a loop variable holding the receiver may have moved on by then).
func lockProbe(call *ast.CallExpr, sel *ast.SelectorExpr) ast.Stmt {
	var buf bytes.Buffer
	format.Node(&buf, fset, sel.X)
	recv := buf.String()
	kind, read := "auto.lock:", "false"
	if sel.Sel.Name == "RLock" {
		kind, read = "auto.rlock:", "true"
	}
	src := fmt.Sprintf("package p\nfunc f() { simhook.AwaitLock(%q, &%s, %s) }",
		kind+base+":"+strconv.Itoa(fset.Position(call.Pos()).Line), recv, read)
	f, err := parser.ParseFile(token.NewFileSet(), "", src, 0)
	if err != nil {
		panic(err)
	}
	return f.Decls[0].(*ast.FuncDecl).Body.List[0]
}

// sendProbe returns, for a send statement `ch <- v` on a buffered channel, a block that parks the task in
// the simulator until the channel has room (an unbuffered channel is let through: whether a partner is
// there cannot be seen from here). The channel value is copied when the block runs; the probe the
// scheduler evaluates later looks at nothing else.
func sendProbe(st *ast.SendStmt) ast.Stmt {
	var buf bytes.Buffer
	format.Node(&buf, fset, st.Chan)
	ch := buf.String()
	src := fmt.Sprintf("package p\nfunc f() { { simCh := %s; simhook.Await(%q, nil, func() bool { return cap(simCh) == 0 || len(simCh) < cap(simCh) }) } }",
		ch, "auto.send:"+base+":"+strconv.Itoa(fset.Position(st.Pos()).Line))
	f, err := parser.ParseFile(token.NewFileSet(), "", src, 0)
	if err != nil {
		panic(err)
	}
	return f.Decls[0].(*ast.FuncDecl).Body.List[0]
}

func markStmt(name string, deferred bool) ast.Stmt {
	call := &ast.CallExpr{
		Fun:  &ast.SelectorExpr{X: ast.NewIdent("simhook"), Sel: ast.NewIdent("Yield")},
		Args: []ast.Expr{&ast.BasicLit{Kind: token.STRING, Value: strconv.Quote(name)}, ast.NewIdent("nil")},
	}
	if deferred {
		return &ast.DeferStmt{Call: call}
	}
	return &ast.ExprStmt{X: call}
}

// isUnlockCall recognises `x.Unlock()` / `x.RUnlock()` as a statement or as the call of a defer.
func isUnlockCall(c *ast.CallExpr) bool {
	if c == nil || len(c.Args) != 0 {
		return false
	}
	sel, ok := c.Fun.(*ast.SelectorExpr)
	return ok && (sel.Sel.Name == "Unlock" || sel.Sel.Name == "RUnlock")
}

// usesTryLock reports whether the statement (outside nested function literals) calls x.TryLock() or
// x.TryRLock(): code whose behaviour depends on a lock being held by somebody else at that instant.
func usesTryLock(n ast.Node) bool {
	found := false
	ast.Inspect(n, func(x ast.Node) bool {
		if _, ok := x.(*ast.FuncLit); ok && x != n {
			return false
		}
		if c, ok := x.(*ast.CallExpr); ok && len(c.Args) == 0 {
			if sel, ok := c.Fun.(*ast.SelectorExpr); ok && (sel.Sel.Name == "TryLock" || sel.Sel.Name == "TryRLock") {
				found = true
			}
		}
		return true
	})
	return found
}

func isLockCall(s ast.Stmt) (*ast.CallExpr, *ast.SelectorExpr, bool) {
	es, ok := s.(*ast.ExprStmt)
	if !ok {
		return nil, nil, false
	}
	c, ok := es.X.(*ast.CallExpr)
	if !ok || len(c.Args) != 0 {
		return nil, nil, false
	}
	sel, ok := c.Fun.(*ast.SelectorExpr)
	if !ok || (sel.Sel.Name != "Lock" && sel.Sel.Name != "RLock") {
		return nil, nil, false
	}
	return c, sel, true
}

// rewriteList instruments one statement list. from: index of the first statement that may be instrumented.
func rewriteList(list []ast.Stmt, from int, firstAllowed bool) []ast.Stmt {
	var out []ast.Stmt
	afterBeforeBlock := false
	for i, s := range list {
		// decided on the statement as written, before its nested blocks are instrumented
		hadHook := callsSimhook(s, "")
		hookBeforeBlock := callsSimhook(s, "BeforeBlock") || callsSimhook(s, "Spawn")
		tryLock := usesTryLock(s)
		rewriteInside(s)
		eligible := i >= from && (i > 0 || firstAllowed) && !afterBeforeBlock
		if _, isSel := s.(*ast.SelectStmt); isSel {
			eligible = false
		}
		if hadHook {
			eligible = false
		}
		if _, isDecl := s.(*ast.DeclStmt); isDecl {
			eligible = false
		}
		if ls, isLabeled := s.(*ast.LabeledStmt); isLabeled {
			_ = ls
			eligible = false
		}
		_, _, isLock := isLockCall(s)
		if eligible {
			if c, sel, ok := isLockCall(s); ok {
				out = append(out, lockProbe(c, sel))
				locks++
			} else if tryLock {
				// the simulator may arrange for another task to hold a lock at this very moment
				out = append(out, markStmt("auto.trylock", false))
				inserted++
			} else if snd, ok := s.(*ast.SendStmt); ok {
				out = append(out, yieldStmt(s.Pos()))
				out = append(out, sendProbe(snd))
				inserted++
				sends++
			} else {
				out = append(out, yieldStmt(s.Pos()))
				inserted++
			}
		}
		// the simulator keeps a per-task count of held locks (a task is not preempted at plain yields while
		// it holds one): tell it about every acquisition and release in this file
		if ds, ok := s.(*ast.DeferStmt); ok && isUnlockCall(ds.Call) {
			out = append(out, markStmt("auto.unlocked", true)) // deferred before the unlock: runs after it
		}
		out = append(out, s)
		if isLock {
			out = append(out, markStmt("auto.locked", false))
		}
		if es, ok := s.(*ast.ExprStmt); ok {
			if c, ok := es.X.(*ast.CallExpr); ok && isUnlockCall(c) {
				out = append(out, markStmt("auto.unlocked", false))
			}
		}
		// between Spawn and the go statement the child task exists for the scheduler but has no goroutine yet
		afterBeforeBlock = hookBeforeBlock
	}
	return out
}

// rewriteInside descends into the blocks nested in a statement.
func rewriteInside(s ast.Stmt) {
	switch x := s.(type) {
	case *ast.BlockStmt:
		x.List = rewriteList(x.List, 0, true)
	case *ast.IfStmt:
		rewriteExprFuncs(x.Cond)
		if x.Init != nil {
			rewriteStmtFuncs(x.Init)
		}
		x.Body.List = rewriteList(x.Body.List, 0, true)
		if x.Else != nil {
			rewriteInside(x.Else)
		}
	case *ast.ForStmt:
		x.Body.List = rewriteList(x.Body.List, 0, true)
	case *ast.RangeStmt:
		x.Body.List = rewriteList(x.Body.List, 0, true)
	case *ast.SwitchStmt:
		for _, c := range x.Body.List {
			cc := c.(*ast.CaseClause)
			cc.Body = rewriteList(cc.Body, 0, true)
		}
	case *ast.TypeSwitchStmt:
		for _, c := range x.Body.List {
			cc := c.(*ast.CaseClause)
			cc.Body = rewriteList(cc.Body, 0, true)
		}
	case *ast.SelectStmt:
		for _, c := range x.Body.List {
			cc := c.(*ast.CommClause)
			cc.Body = rewriteList(cc.Body, 0, false)
		}
	case *ast.GoStmt:
		if fl, ok := x.Call.Fun.(*ast.FuncLit); ok {
			start := -1
			for i, st := range fl.Body.List {
				if callsSimhook(st, "TaskStart") {
					start = i + 1
				}
			}
			if start >= 0 {
				fl.Body.List = rewriteList(fl.Body.List, start, true)
			}
		}
	case *ast.DeferStmt:
		if fl, ok := x.Call.Fun.(*ast.FuncLit); ok {
			fl.Body.List = rewriteList(fl.Body.List, 0, true)
		}
	case *ast.LabeledStmt:
		rewriteInside(x.Stmt)
	default:
		rewriteStmtFuncs(s)
	}
}

// function literals appearing inside expressions (callbacks) are instrumented like function bodies,
// except those handed to simhook itself (readiness probes run without the token).
func rewriteStmtFuncs(s ast.Stmt) {
	if callsSimhook(s, "") {
		return
	}
	ast.Inspect(s, func(n ast.Node) bool {
		if fl, ok := n.(*ast.FuncLit); ok {
			fl.Body.List = rewriteList(fl.Body.List, 0, true)
			return false
		}
		return true
	})
}

func rewriteExprFuncs(e ast.Expr) {
	if e == nil {
		return
	}
	ast.Inspect(e, func(n ast.Node) bool {
		if fl, ok := n.(*ast.FuncLit); ok {
			fl.Body.List = rewriteList(fl.Body.List, 0, true)
			return false
		}
		return true
	})
}

func main() {
	args := os.Args[1:]
	for ai := 0; ai < len(args); ai++ {
		path := args[ai]
		loopsOnly = false
		if path == "-loops" && ai+1 < len(args) {
			loopsOnly = true
			ai++
			path = args[ai]
		}
		fset = token.NewFileSet()
		base = filepath.Base(path)
		inserted, locks, sends = 0, 0, 0
		f, err := parser.ParseFile(fset, path, nil, parser.ParseComments)
		if err != nil {
			fmt.Fprintln(os.Stderr, "autoyield:", err)
			os.Exit(1)
		}
		for _, d := range f.Decls {
			fd, ok := d.(*ast.FuncDecl)
			if !ok || fd.Body == nil {
				continue
			}
			// readiness probes and print helpers stay as they are
			if strings.HasPrefix(fd.Name.Name, "simTry") || fd.Name.Name == "init" {
				continue
			}
			if loopsOnly {
				instrumentLoops(fd.Body)
				continue
			}
			fd.Body.List = rewriteList(fd.Body.List, 0, true)
		}
		hasImport := false
		for _, im := range f.Imports {
			if strings.Trim(im.Path.Value, `"`) == "github.com/jig/lisp/simhook" {
				hasImport = true
			}
		}
		var buf bytes.Buffer
		// comments are dropped on purpose (their positions no longer fit); build directives are kept below
		f.Comments = nil
		if err := format.Node(&buf, fset, f); err != nil {
			fmt.Fprintln(os.Stderr, "autoyield: print:", err)
			os.Exit(1)
		}
		src := buf.String()
		if !hasImport {
			src = strings.Replace(src, "\nimport (", "\nimport (\n\t\"github.com/jig/lisp/simhook\"", 1)
		}
		// keep //go:embed and //go:build lines: they were comments
		orig, _ := os.ReadFile(path)
		for _, ln := range strings.Split(string(orig), "\n") {
			if strings.HasPrefix(ln, "//go:embed ") {
				// re-attach to the var declaration that follows it in the original
				idx := strings.Index(string(orig), ln)
				rest := string(orig)[idx+len(ln)+1:]
				decl := strings.SplitN(rest, "\n", 2)[0]
				src = strings.Replace(src, "\n"+decl, "\n"+ln+"\n"+decl, 1)
			}
		}
		out, err := format.Source([]byte(src))
		if err != nil {
			fmt.Fprintln(os.Stderr, "autoyield: format:", err)
			os.Stderr.WriteString(src)
			os.Exit(1)
		}
		if err := os.WriteFile(path, out, 0o644); err != nil {
			fmt.Fprintln(os.Stderr, "autoyield:", err)
			os.Exit(1)
		}
		fmt.Printf("autoyield: %s: %d yields, %d lock probes, %d send probes\n", path, inserted, locks, sends)
	}
}
