#!/bin/bash
# usage: try_benign.sh <patch.diff> <prop> [<prop>...]
# A behaviour-preserving change: builds, baseline passes, and the given quick checks must stay silent (exit 0).
set -u
patch=$(readlink -f "$1"); shift
id=$$; wt=/tmp/benwt-$id; sc=/tmp/bensc-$id
git -C /repo worktree add -q --detach "$wt" HEAD || exit 2
if ! git -C "$wt" apply "$patch"; then echo "PATCH-DOES-NOT-APPLY"; git -C /repo worktree remove --force "$wt"; exit 2; fi
base=$("$(dirname "$(readlink -f "$0")")"/baseline_dir.sh "$wt" 2>&1 | tail -1)
mkdir -p "$sc"
for p in "$@"; do
  LISPSIM_REPO=$wt LISPSIM_BUILD=$sc/build LISPSIM_REPLAYS=$sc/replays LISPSIM_EVID=$sc/evid "$(dirname "$0")/../check" "$p" quick > "$sc/$p.out" 2>&1
  rc=$?
  case $rc in 0) v=SILENT;; 1) v=ALARM;; *) v=TROUBLE;; esac
  echo "$(basename $(dirname $patch)) vs $p: $v (exit $rc) [$base]"
  if [ $rc -ne 0 ]; then grep -A3 '^VIOLATION\|HARNESS-ERROR' "$sc/$p.out" | cut -c1-300 | head -14; fi
done
git -C /repo worktree remove --force "$wt"; rm -rf "$sc"
