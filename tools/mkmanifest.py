#!/usr/bin/env python3
"""Regenerates /verif/MANIFEST.json from tools/propmeta.py (claimed checks) and the fixed not-applicable list."""
import json, os, subprocess, sys
sys.path.insert(0, os.path.dirname(os.path.abspath(__file__)))
import propmeta

NA = {
 "C01": "pure function program -> (result, effect order): single thread, no clock, no fault, no interleaving in statement or code; a generator plus oracle would be property-based testing, not simulation",
 "C04": "pure function AST -> {value, error, panic} over malformed inputs; no schedule, clock or fault in the quantifier (the builtin-panic path is exercised as a by-product of C03's fault injection)",
 "C05": "pure function of a byte string: READ takes a complete string, the scanner's reader is a strings.Reader without a seam, so truncation is just another input",
 "C06": "pure function of a value or text; Go's randomised map iteration in the printer cannot be put behind a seam and the property must hold for each order",
 "C08": "deterministic single-threaded measurement (host stack depth as a function of n); nothing to schedule or inject",
 "C12": "pure function of template and operands (macro expansion, quasiquote algebra)",
 "C13": "pure functions of their arguments (collection builtins against a model)",
 "C14": "pure function of a pair/triple of values (structural equality)",
 "C15": "pure function of (source text, placeholder map); the 'transport' is string concatenation and parsing, nothing can be lost, reordered or delayed",
 "C16": "pure function of the text (incomplete vs malformed); the REPL line loop is terminal I/O without a seam and not part of the statement",
 "C17": "pure function of the program text, explicitly restricted to the calling thread",
 "C19": "relation between deterministic single-threaded runs; the only I/O (os.ReadFile in slurp) has no seam and no I/O fault appears in the statement",
 "C20": "finite table signature x bounds x argument list of the reflective binder; context injection and panic conversion are exercised by C07/C03 workloads, deciding the table is input enumeration",
}
PENDING = {}  # filled below for claimed-in-design properties whose check is not built yet

def main():
    verif = os.path.dirname(os.path.dirname(os.path.abspath(__file__)))
    props = [json.loads(l) for l in open(os.path.join(verif, "properties.jsonl"))]
    ids = [p["id"] for p in props]
    try:
        commits = subprocess.check_output(["git", "-C", "/repo", "log", "--format=%H %s", "e249d35..HEAD"], text=True).strip().splitlines()
    except Exception:
        commits = []
    hook_commits = [c.split()[0] for c in commits if not c.split(" ", 1)[1].startswith("fix:")]
    checks = []
    for pid in ids:
        m = propmeta.PROPS.get(pid)
        if not m:
            continue
        checks.append({
            "property_id": pid,
            "quick_cmd": "./check %s quick" % pid,
            "thorough_cmd": "./check %s thorough" % pid,
            "evidence_file": "evidence/%s.json" % pid,
            "replay_cmd_template": "./check replay {path}",
            "engine": "lispsim",
            "level_claimed": {"category": m["level"], "text": m["level_text"], "design_ref": m["design_ref"]},
            "level_note": m["level_note"],
            "technique": m["technique"],
        })
    na = []
    for pid in ids:
        if pid in propmeta.PROPS:
            continue
        if pid in NA:
            na.append({"property_id": pid, "reason": "not applicable to deterministic simulation: " + NA[pid]})
        else:
            na.append({"property_id": pid, "reason": "a simulation target by DESIGN.md, but its check is not built yet in this tree; not claimed until it is"})
    man = {
        "version": 1,
        "setup_cmd": "./tools/setup.sh",
        "hooks": {
            "guard": "verif",
            "enable": "go test -c -tags verif (build tag; package github.com/jig/lisp/simhook is a no-op without it)",
            "baseline_off_cmd": "./tools/baseline_off.sh",
            "source_commits": list(reversed(hook_commits)),
            "add_only": True,
        },
        "engines": [{
            "name": "lispsim", "path": "sim/",
            "serves_properties": [c["property_id"] for c in checks],
            "kind_free_text": "deterministic simulator: seeded token scheduler over real goroutines, testing/synctest fake clock, three-lane choice tape with replay and minimisation, Go race detector as race oracle with scheduler hand-offs hidden from it, porcupine for atom histories",
        }],
        "checks": checks,
        "not_applicable": na,
        "notes": "See DESIGN.md. ./check <id> quick|thorough rebuilds both simulator binaries from /repo's working tree (-tags verif) on every call. Exit 0 held, 1 VIOLATION (replay file under replays/), 2 harness trouble (never a verdict). known_findings.json lists recorded and fixed defects.",
    }
    with open(os.path.join(verif, "MANIFEST.json"), "w") as f:
        json.dump(man, f, indent=1)
    print("MANIFEST.json: %d checks, %d not applicable" % (len(checks), len(na)))

if __name__ == "__main__":
    main()
