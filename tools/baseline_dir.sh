#!/bin/bash
# Runs the repository's pinned test suite with the verif guard OFF (no -tags verif) and
# compares the set of passing tests with /root/.vp/BASELINE.json's stable_pass list.
# usage: baseline_dir.sh [dir]  (default /repo)
# exit 0: every baseline test passes; exit 1 otherwise.
export GOFLAGS=-mod=mod GOPROXY=off GOSUMDB=off
cd "${1:-/repo}" || exit 2
out=$(mktemp)
go test -mod=mod -json -vet=off -count=1 -timeout 25m ./... > "$out" 2>/dev/null
python3 - "$out" <<'PY'
import json,sys
passed=set()
for l in open(sys.argv[1]):
    try: e=json.loads(l)
    except Exception: continue
    if e.get('Action')=='pass' and e.get('Test'):
        passed.add(e['Package']+'::'+e['Test'])
base=json.load(open('/root/.vp/BASELINE.json'))['stable_pass']
missing=[t for t in base if t not in passed]
print(f"baseline tests: {len(base)} passing now: {len(base)-len(missing)} missing: {missing}")
sys.exit(1 if missing else 0)
PY
rc=$?
rm -f "$out"
exit $rc
