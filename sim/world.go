package lispsim

// Environment construction, canonical printing and the harness builtins that stand in for
// embedder-supplied Go functions.

import (
	"context"
	"errors"
	"sort"
	"strconv"
	"strings"

	"github.com/jig/lisp"
	"github.com/jig/lisp/env"
	"github.com/jig/lisp/lib/concurrent"
	"github.com/jig/lisp/lib/concurrent/nsconcurrent"
	"github.com/jig/lisp/lib/core/nscore"
	"github.com/jig/lisp/lib/coreextented/nscoreextended"
	"github.com/jig/lisp/types"
)

// NewEnv returns a fresh environment with the three standard libraries loaded (real code).
func NewEnv() types.EnvType {
	e := env.NewEnv()
	if err := nscore.Load(e); err != nil {
		panic("library load failed: nscore: " + err.Error())
	}
	if err := nsconcurrent.Load(e); err != nil {
		panic("library load failed: nsconcurrent: " + err.Error())
	}
	if err := nscoreextended.Load(e); err != nil {
		panic("library load failed: nscoreextended: " + err.Error())
	}
	return e
}

func mustRead(src string) types.MalType {
	ast, err := lisp.READ(src, nil, nil)
	if err != nil {
		panic("harness: cannot read generated program: " + src + ": " + err.Error())
	}
	return ast
}

// canon prints a lisp value canonically: map and set keys sorted, no addresses, no fmt.
func canon(v types.MalType) string {
	var b strings.Builder
	canonTo(&b, v, 0, canonErr)
	return b.String()
}

// canonWith is canon with a caller-supplied rendering of error values.
func canonWith(v types.MalType, errFn func(error) string) string {
	var b strings.Builder
	canonTo(&b, v, 0, errFn)
	return b.String()
}

func canonSeq(b *strings.Builder, xs []types.MalType, open, close string, depth int, errFn func(error) string) {
	b.WriteString(open)
	for i, x := range xs {
		if i > 0 {
			b.WriteByte(' ')
		}
		canonTo(b, x, depth+1, errFn)
	}
	b.WriteString(close)
}

func canonTo(b *strings.Builder, v types.MalType, depth int, errFn func(error) string) {
	if depth > 200 {
		b.WriteString("#deep")
		return
	}
	switch x := v.(type) {
	case nil:
		b.WriteString("nil")
	case bool:
		if x {
			b.WriteString("true")
		} else {
			b.WriteString("false")
		}
	case int:
		b.WriteString(strconv.Itoa(x))
	case string:
		if strings.HasPrefix(x, "ʞ") {
			b.WriteString(":" + x[2:])
		} else {
			b.WriteString(strconv.Quote(x))
		}
	case types.Symbol:
		b.WriteString(x.Val)
	case types.List:
		canonSeq(b, x.Val, "(", ")", depth, errFn)
	case types.Vector:
		canonSeq(b, x.Val, "[", "]", depth, errFn)
	case types.HashMap:
		keys := make([]string, 0, len(x.Val))
		for k := range x.Val {
			keys = append(keys, k)
		}
		sort.Strings(keys)
		b.WriteString("{")
		for i, k := range keys {
			if i > 0 {
				b.WriteByte(' ')
			}
			canonTo(b, k, depth+1, errFn)
			b.WriteByte(' ')
			canonTo(b, x.Val[k], depth+1, errFn)
		}
		b.WriteString("}")
	case types.Set:
		keys := make([]string, 0, len(x.Val))
		for k := range x.Val {
			keys = append(keys, k)
		}
		sort.Strings(keys)
		b.WriteString("#{")
		for i, k := range keys {
			if i > 0 {
				b.WriteByte(' ')
			}
			canonTo(b, k, depth+1, errFn)
		}
		b.WriteString("}")
	case types.MalFunc:
		// parameters and body are lisp values too (code is data): print them, not an address
		if x.IsMacro {
			b.WriteString("#macro<")
		} else {
			b.WriteString("#fn<")
		}
		canonTo(b, x.Params, depth+1, errFn)
		b.WriteByte(' ')
		canonTo(b, x.Exp, depth+1, errFn)
		b.WriteString(">")
	case types.Func:
		b.WriteString("#gofn")
	case *concurrent.Atom:
		b.WriteString("#atom")
	case *concurrent.Future:
		b.WriteString("#future")
	case error:
		b.WriteString(errFn(x))
	case []byte:
		b.WriteString("#bin<")
		for _, c := range x {
			b.WriteString(strconv.Itoa(int(c)))
			b.WriteByte(' ')
		}
		b.WriteString(">")
	default:
		b.WriteString("#other")
	}
}

// canonErr renders an error without positions: thrown lisp values structurally, Go errors by message.
func canonErr(err error) string {
	if err == nil {
		return ""
	}
	if ev, ok := err.(interface{ ErrorValue() types.MalType }); ok {
		v := ev.ErrorValue()
		if e2, ok := v.(error); ok {
			return "#goerr<" + e2.Error() + ">"
		}
		return "#thrown<" + canon(v) + ">"
	}
	return "#goerr<" + err.Error() + ">"
}

func isTimeoutErr(err error) bool {
	return err != nil && strings.Contains(err.Error(), "timeout")
}

// ---- harness builtins ----

var errGateCancelled = errors.New("timeout: gate wait cancelled by context")

type Harness struct {
	S *Sim
	// Canon, when set, replaces the canonical printer for traced values (C03/C18 know sentinel errors).
	Canon func(types.MalType) string
}

func argStr(a []types.MalType, i int) string {
	if i >= len(a) {
		return ""
	}
	return canon(a[i])
}

// canonQuiet prints under raceOff: reads of lisp memory stay visible to the detector, the
// allocator/strconv internals add no edges.
//
//go:norace
func canonQuiet(a []types.MalType, i int) string {
	raceOff()
	r := argStr(a, i)
	raceOn()
	return r
}

// (trace! x) records x and returns it.
//
//go:norace
func (h *Harness) Trace(ctx context.Context, a []types.MalType) (types.MalType, error) {
	if h.Canon != nil && len(a) > 0 {
		h.S.Rec("trace", h.Canon(a[0]), "", 0)
		return a[0], nil
	}
	h.S.Rec("trace", canonQuiet(a, 0), "", 0)
	if len(a) > 0 {
		return a[0], nil
	}
	return nil, nil
}

// (h-begin id) marks the invocation of a nested recorded operation.
//
//go:norace
func (h *Harness) Begin(ctx context.Context, a []types.MalType) (types.MalType, error) {
	h.S.Rec("begin", canonQuiet(a, 0), "", 0)
	return nil, nil
}

// (h-end id v) marks its return with result v, and returns v.
//
//go:norace
func (h *Harness) End(ctx context.Context, a []types.MalType) (types.MalType, error) {
	h.S.Rec("end", canonQuiet(a, 0), canonQuiet(a, 1), 0)
	if len(a) > 1 {
		return a[1], nil
	}
	return nil, nil
}

type gateWait struct {
	s    *Sim
	name string
	ctx  context.Context
}

//go:norace
func (g *gateWait) ready() bool {
	if g.s.GateOpen(g.name) {
		return true
	}
	return g.ctx != nil && g.ctx.Err() != nil
}

//go:norace
func (g *gateWait) poke() { g.s.Poke() }

// Poke wakes the scheduler so that it re-evaluates waiting predicates.
//
//go:norace
func (s *Sim) Poke() {
	raceOff()
	select {
	case s.arrive <- struct{}{}:
	default:
	}
	raceOn()
}

// (gate! name) parks the caller until the gate is opened; ignores its context.
//
//go:norace
func (h *Harness) Gate(ctx context.Context, a []types.MalType) (types.MalType, error) {
	g := &gateWait{s: h.S, name: canonQuiet(a, 0)}
	h.S.WaitUntil("gate", g.ready)
	return nil, nil
}

// (gate-ctx! name) parks until the gate is opened or the caller's context ends (then a timeout error).
//
//go:norace
func (h *Harness) GateCtx(ctx context.Context, a []types.MalType) (types.MalType, error) {
	g := &gateWait{s: h.S, name: canonQuiet(a, 0), ctx: ctx}
	stop := context.AfterFunc(ctx, g.poke)
	h.S.WaitUntilBlockedOK("gate-ctx", g.ready)
	stop()
	if !h.S.GateOpen(g.name) {
		return nil, errGateCancelled
	}
	return nil, nil
}

// (open-gate! name)
//
//go:norace
func (h *Harness) OpenGate(ctx context.Context, a []types.MalType) (types.MalType, error) {
	h.S.OpenGate(canonQuiet(a, 0))
	return nil, nil
}

func (h *Harness) Install(e types.EnvType) {
	set := func(name string, fn types.ExternalCall) {
		e.Set(types.Symbol{Val: name}, types.Func{Fn: fn})
	}
	set("trace!", h.Trace)
	set("h-begin", h.Begin)
	set("h-end", h.End)
	set("gate!", h.Gate)
	set("gate-ctx!", h.GateCtx)
	set("open-gate!", h.OpenGate)
}
