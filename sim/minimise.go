package lispsim

import (
	"runtime"
	"sync/atomic"
	"testing"
	"time"
)

func runtimeStack(buf []byte) int { return runtime.Stack(buf, true) }

// minimiseWall bounds the wall-clock time spent on minimising one violation; the worker sets it to a
// fraction of its own budget so that minimisation never eats the search.
var minimiseWall = 40 * time.Second

// minimise shrinks a recorded tape while the same violation clause still fails: truncate lanes
// (the replay default past the end is 0 = no fault / no preemption / first alternative), zero
// blocks, delete blocks, lower single values. Every candidate is one fresh simulated run.
func minimise(t *testing.T, p Property, rec [nLanes][]uint32, v Violation, opt RunOpt) ([nLanes][]uint32, Violation) {
	budgetRuns := 1500
	if raceBuild {
		budgetRuns = 300
	}
	deadline := time.Now().Add(minimiseWall)
	runs := 0
	best := rec
	bestV := v
	try := func(c [nLanes][]uint32) bool {
		if runs >= budgetRuns || time.Now().After(deadline) {
			return false
		}
		runs++
		atomic.AddInt64(&progress, 1)
		o := runOne(t, p, ReplayTape(c), opt)
		if hv := hasClause(o, v.Clause); hv != nil {
			best = c
			bestV = *hv
			return true
		}
		return false
	}
	clone := func(c [nLanes][]uint32) [nLanes][]uint32 {
		var r [nLanes][]uint32
		for l := range c {
			r[l] = append([]uint32(nil), c[l]...)
		}
		return r
	}
	trimZeros := func(c [nLanes][]uint32) [nLanes][]uint32 {
		for l := range c {
			n := len(c[l])
			for n > 0 && c[l][n-1] == 0 {
				n--
			}
			c[l] = c[l][:n]
		}
		return c
	}
	best = trimZeros(clone(best))
	order := []Lane{LaneFault, LaneSched, LaneWork}
	for pass := 0; pass < 3; pass++ {
		startRuns := runs
		improved := false
		// 1. truncate each lane (binary search on the prefix length)
		for _, l := range order {
			lo, hi := 0, len(best[l])
			for lo < hi {
				mid := (lo + hi) / 2
				c := clone(best)
				c[l] = c[l][:mid]
				if try(c) {
					hi = mid
					improved = true
				} else {
					lo = mid + 1
				}
			}
		}
		// 2. zero blocks
		for _, l := range order {
			for size := len(best[l]) / 2; size >= 1; size /= 2 {
				for i := 0; i+size <= len(best[l]); i += size {
					nz := false
					for j := i; j < i+size; j++ {
						if best[l][j] != 0 {
							nz = true
						}
					}
					if !nz {
						continue
					}
					c := clone(best)
					for j := i; j < i+size; j++ {
						c[l][j] = 0
					}
					if try(trimZeros(c)) {
						improved = true
					}
				}
			}
		}
		// 3. delete blocks
		for _, l := range order {
			for size := 8; size >= 1; size /= 2 {
				for i := 0; i+size <= len(best[l]); {
					c := clone(best)
					c[l] = append(c[l][:i], c[l][i+size:]...)
					if try(trimZeros(c)) {
						improved = true
					} else {
						i += size
					}
				}
			}
		}
		// 4. lower single values
		for _, l := range order {
			for i := 0; i < len(best[l]); i++ {
				for _, nv := range []uint32{best[l][i] / 2, best[l][i] - 1} {
					if i >= len(best[l]) || best[l][i] == 0 || nv >= best[l][i] {
						break
					}
					c := clone(best)
					c[l][i] = nv
					if try(trimZeros(c)) {
						improved = true
					}
				}
			}
		}
		if !improved || runs == startRuns {
			break
		}
	}
	return best, bestV
}
