#!/bin/bash
# Every behaviour-preserving change under seeded/benign against every claimed check: all must stay silent.
cd "$(dirname "$0")/.."
for d in seeded/benign/*/; do
  [ -f "$d/patch.diff" ] || continue
  tools/try_benign.sh "$d/patch.diff" C02 C03 C07 C09 C10 C11 C18 2>&1 | cut -c1-260
done
