package lispsim

// C03 — throw, catch and finally under injected builtin failures.
//
// A run generates one try-nest program (depth <= 5) over a tiny node language that is both rendered
// to lisp and interpreted by a reference model of exactly the try semantics in the statement. The
// injected faults are failures of the harness builtins probe! (registered through lib/call, the
// reflective path with panic recovery) and probe-raw! (a raw types.Func): per probe site the plan says
// return the value / return a Go error (plain or %w-wrapped sentinel) / panic with an error /
// panic with a non-error value / throw a lisp value. Every single-fault plan of the generated
// program is executed (fault enumeration), in the thorough tier also drawn multi-fault plans.
// Compared: result or thrown object (lisp values structurally, Go errors via errors.Is against
// the sentinel) and the ordered trace of body / handler / finally effects.

import (
	"os"
	"context"
	"errors"
	"fmt"
	"regexp"
	"strconv"
	"strings"
	"time"

	"github.com/jig/lisp"
	"github.com/jig/lisp/lib/call"
	"github.com/jig/lisp/lisperror"
	"github.com/jig/lisp/simhook"
	"github.com/jig/lisp/types"
)

type c03 struct{}

func (c03) ID() string { return "C03" }

func init() { register(c03{}) }

// ---- node language ----

type n3 struct {
	Kind       string // const trace probe sym tsym mprobe mthrow throw do try wrap let
	RawPanicOK bool   // probe: an enclosing try body will recover a Go panic of a raw builtin
	BodyOnly   bool   // probe: inside a try body and inside no handler (a budget expiring here leaves the try's own context alive)
	Src        string // const: lisp source; trace: tag
	Val        string // const: canonical value
	Site       int    // probe site index
	Raw        bool   // probe-raw!
	ErrOnly    bool   // probe-e!: a lib/call builtin whose only result is an error (its value is nil)
	Wrap       string // wrap kind
	Kids       []*n3  // do: exprs; throw/wrap: [x]; let: [val, body]; try: body exprs
	Catch      []*n3  // try: handler exprs (nil: no catch clause)
	Fin        []*n3  // try: finally exprs (nil: no finally clause)
	HasC       bool
	HasF       bool
	ViaSwap    bool   // throw: raised inside the update function of a swap! on a local atom, after the function has reset that atom
	ViaMacro   bool   // rendered through a macro: the try form the evaluator sees was not built by the reader
	CatchSym   string // "e" or "_"
	Name       string // sym/tsym: which symbol is read ("e" or "_")
}

var c03Consts = [][2]string{
	{"7", "7"}, {`"s1"`, `"s1"`}, {":k1", ":k1"}, {"nil", "nil"}, {"true", "true"}, {"'sym1", "sym1"},
	{"'(+ 1 2)", "(+ 1 2)"}, {"(list '+ 1 2)", "(+ 1 2)"}, {"'(trace! :evaluated-twice)", "(trace! :evaluated-twice)"},
	{"[1 2]", "[1 2]"}, {"{:a 1}", "{:a 1}"}, {"'(throw 99)", "(throw 99)"}, {"'e", "e"}, {"'(do (trace! :again) 5)", "(do (trace! :again) 5)"},
	{"0", "0"}, {"false", "false"}, {"()", "()"}, {"'(sym2)", "(sym2)"},
	// collections that contain code-looking items: they are data too
	{"['sym1 2]", "[sym1 2]"}, {"{:k '(trace! :evaluated-twice)}", "{:k (trace! :evaluated-twice)}"}, {"[(list 'trace! :vec-evaluated) 1]", "[(trace! :vec-evaluated) 1]"},
	{"{:s 'sym2}", "{:s sym2}"}, {"(with-meta ['e '(throw 98)] {:m 1})", "[e (throw 98)]"}, {"(list [1 'sym1] {:a '(sym2)})", "([1 sym1] {:a (sym2)})"},
}

var c03Wraps = []string{"fn1", "fn2", "fn3", "m-id", "cond", "or", "and", "thread", "call1", "apply", "let-other", "visit", "visit", "defmacro-value",
	"update-cb", "update-in2-cb", "update-in3-cb", "map-cb", "swap-cb", "reduce-cb"}

// callback wrappers: x is evaluated inside a function that a builtin calls back
var c03CallbackWraps = map[string]bool{"visit": true, "update-cb": true, "update-in2-cb": true, "update-in3-cb": true, "map-cb": true, "swap-cb": true, "reduce-cb": true}

// visitErr is what the harness builtin (visit f) returns when the lisp function it called back failed: a Go
// error of its own that wraps the callback's error.
type visitErr struct{ inner error }

func (v *visitErr) Error() string { return "visit: " + v.inner.Error() }
func (v *visitErr) Unwrap() error { return v.inner }

// c03InstallExtras registers (visit f): calls f without arguments through types.Apply.
func c03InstallExtras(e types.EnvType) {
	e.Set(types.Symbol{Val: "visit"}, types.Func{Fn: func(ctx context.Context, a []types.MalType) (types.MalType, error) {
		r, err := types.Apply(ctx, a[0], nil)
		if err != nil {
			return nil, &visitErr{inner: err}
		}
		return r, nil
	}})
}

// hasRawProbe: a panic of a raw builtin passes through (visit f) without being wrapped.
func hasRawProbe(n *n3) bool {
	if n == nil {
		return false
	}
	if n.Kind == "probe" && n.Raw {
		return true
	}
	for _, l := range [][]*n3{n.Kids, n.Catch, n.Fin} {
		for _, k := range l {
			if hasRawProbe(k) {
				return true
			}
		}
	}
	return false
}

type c03Gen struct {
	handlerDepth int

	tp    *Tape
	sites int
	tags  int
	nodes int
}

func (g *c03Gen) constNode() *n3 {
	c := c03Consts[g.tp.Draw(LaneWork, len(c03Consts))]
	return &n3{Kind: "const", Src: c[0], Val: c[1]}
}

func (g *c03Gen) symName() string {
	if g.tp.Chance(LaneWork, 1, 4) {
		return "_"
	}
	return "e"
}

func (g *c03Gen) trace(prefix string) *n3 {
	g.tags++
	return &n3{Kind: "trace", Src: ":" + prefix + strconv.Itoa(g.tags)}
}

func (g *c03Gen) probe(inBody bool) *n3 {
	g.sites++
	n := &n3{Kind: "probe", Site: g.sites, RawPanicOK: inBody, BodyOnly: inBody && g.handlerDepth == 0}
	switch g.tp.Draw(LaneWork, 4) {
	case 1:
		n.Raw = true
	case 2:
		n.ErrOnly = true
	}
	return n
}

var c03MacroThrowConsts = [][2]string{{"7", "7"}, {`"ms"`, `"ms"`}, {":mk", ":mk"}, {"[1 2]", "[1 2]"}, {"{:reason :arity}", "{:reason :arity}"}, {"nil", "nil"}}

// expr generates an expression; inFin restricts to what finally bodies may contain.
func (g *c03Gen) expr(depth int, inFin bool, inBody bool) *n3 {
	g.nodes++
	if inFin {
		switch g.tp.Draw(LaneWork, 3) {
		case 0:
			return g.trace("f")
		case 1:
			// what the catch symbol resolves to inside finally is observable through the trace
			return &n3{Kind: "tsym", Name: g.symName()}
		}
		if g.tp.Chance(LaneWork, 1, 6) {
			// a finally body may fail too: it must not change the result or the error of the form
			if g.tp.Chance(LaneWork, 1, 2) {
				return &n3{Kind: "throw", Kids: []*n3{g.constNode()}}
			}
			return g.probe(false)
		}
		return g.constNode()
	}
	w := []int{4, 3, 3, 2, 3, 2, 4, 3, 1, 2, 1, 1, 1}
	if depth >= 5 || g.nodes > 60 {
		w[5], w[6], w[7], w[8] = 0, 0, 0, 0
	}
	switch g.tp.Weighted(LaneWork, w) {
	case 9:
		return &n3{Kind: "tsym", Name: g.symName()}
	case 10:
		// a builtin failing at macro-expansion time
		g.sites++
		return &n3{Kind: "mprobe", Site: g.sites}
	case 11:
		c := c03MacroThrowConsts[g.tp.Draw(LaneWork, len(c03MacroThrowConsts))]
		return &n3{Kind: "mthrow", Src: c[0], Val: c[1]}
	case 12:
		// a closure made inside a handler reads the catch variable after the handler has returned and another
		// handler has run
		return &n3{Kind: "cclosure", Kids: []*n3{g.constNode(), g.constNode()}}
	case 0:
		return g.probe(inBody)
	case 1:
		return g.trace("t")
	case 2:
		return g.constNode()
	case 3:
		return &n3{Kind: "sym", Name: g.symName()}
	case 4:
		var x *n3
		if g.tp.Chance(LaneWork, 1, 4) {
			x = &n3{Kind: "sym", Name: g.symName()}
		} else {
			x = g.constNode()
		}
		return &n3{Kind: "throw", Kids: []*n3{x}, ViaSwap: g.tp.Chance(LaneWork, 1, 6)}
	case 5:
		n := &n3{Kind: "do"}
		for i := 0; i < 2+g.tp.Draw(LaneWork, 2); i++ {
			n.Kids = append(n.Kids, g.expr(depth+1, false, inBody))
		}
		return n
	case 6:
		return g.try(depth+1, inBody)
	case 7:
		n := &n3{Kind: "wrap", Wrap: c03Wraps[g.tp.Draw(LaneWork, len(c03Wraps))], Kids: []*n3{g.expr(depth+1, false, inBody)}}
		if c03CallbackWraps[n.Wrap] && hasRawProbe(n.Kids[0]) {
			// (a panic of a raw builtin crosses these builtins in ways of their own: not part of the statement)
			n.Wrap = "call1"
		}
		return n
	}
	return &n3{Kind: "let", Kids: []*n3{g.constNode(), g.expr(depth+1, false, inBody)}}
}

// try generates a try form; inBody says whether some enclosing try body would recover a Go panic.
func (g *c03Gen) try(depth int, inBody bool) *n3 {
	n := &n3{Kind: "try"}
	nBody := 1 + g.tp.Draw(LaneWork, 3)
	if g.tp.Chance(LaneWork, 1, 10) {
		nBody = 0 // a try form without any body form (what a resource macro called with an empty body produces)
	}
	for i := 0; i < nBody; i++ {
		n.Kids = append(n.Kids, g.expr(depth, false, true))
	}
	n.CatchSym = "e"
	if g.tp.Chance(LaneWork, 1, 5) {
		n.CatchSym = "_"
	}
	n.ViaMacro = g.tp.Chance(LaneWork, 1, 5)
	shape := g.tp.Weighted(LaneWork, []int{3, 2, 3, 1})
	if shape == 0 || shape == 2 {
		n.HasC = true
		n.Catch = append(n.Catch, g.trace("h"))
		g.handlerDepth++
		for i := 0; i < 1+g.tp.Draw(LaneWork, 2); i++ {
			n.Catch = append(n.Catch, g.expr(depth, false, inBody))
		}
		g.handlerDepth--
	}
	if shape == 1 || shape == 2 {
		n.HasF = true
		for i := 0; i < 1+g.tp.Draw(LaneWork, 2); i++ {
			n.Fin = append(n.Fin, g.expr(depth, true, inBody))
		}
		// every finally is observable
		n.Fin = append([]*n3{g.trace("fin")}, n.Fin...)
	}
	return n
}

func renderAll(ns []*n3) string {
	var parts []string
	for _, k := range ns {
		parts = append(parts, k.render())
	}
	return strings.Join(parts, " ")
}

func (n *n3) symbol() string {
	if n.Name == "_" {
		return "_"
	}
	return "e"
}

func (n *n3) render() string {
	switch n.Kind {
	case "const":
		return n.Src
	case "trace":
		return "(trace! " + n.Src + ")"
	case "probe":
		if n.Raw {
			return "(probe-raw! " + strconv.Itoa(n.Site) + ")"
		}
		if n.ErrOnly {
			return "(probe-e! " + strconv.Itoa(n.Site) + ")"
		}
		return "(probe! " + strconv.Itoa(n.Site) + ")"
	case "sym":
		return n.symbol()
	case "tsym":
		return "(trace! (list :" + map[string]string{"e": "e", "_": "u"}[n.symbol()] + " " + n.symbol() + "))"
	case "cclosure":
		return "(let [f9 (try (throw " + n.Kids[0].render() + ") (catch e (fn [] e)))] (do (try (throw " + n.Kids[1].render() + ") (catch e e)) (f9)))"
	case "mprobe":
		return "(m-probe " + strconv.Itoa(n.Site) + ")"
	case "mthrow":
		return "(m-throw " + n.Src + ")"
	case "throw":
		if n.ViaSwap {
			return "(let [a9 (atom 0)] (swap! a9 (fn [v] (do (reset! a9 (+ v 1)) (throw " + n.Kids[0].render() + ")))))"
		}
		return "(throw " + n.Kids[0].render() + ")"
	case "do":
		return "(do " + renderAll(n.Kids) + ")"
	case "let":
		return "(let [e " + n.Kids[0].render() + "] " + n.Kids[1].render() + ")"
	case "wrap":
		x := n.Kids[0].render()
		switch n.Wrap {
		case "fn1":
			return "((fn [] " + x + "))"
		case "fn2":
			return "((fn [] ((fn [] " + x + "))))"
		case "fn3":
			return "(call3 (fn [] " + x + "))"
		case "m-id":
			return "(m-id " + x + ")"
		case "cond":
			return "(cond false 0 true " + x + ")"
		case "or":
			return "(or nil " + x + ")"
		case "and":
			return "(and true " + x + ")"
		case "thread":
			return "(-> " + x + " (identity))"
		case "call1":
			return "(call1 (fn [] " + x + "))"
		case "apply":
			return "(apply (fn [] " + x + ") ())"
		case "let-other":
			return "(let [other 1] " + x + ")"
		case "visit":
			return "(visit (fn [] " + x + "))"
		case "update-cb":
			return "(get (update {:k 1} :k (fn [v] " + x + ")) :k)"
		case "update-in2-cb":
			return "(get-in (update-in {:a {:b 1}} [:a :b] (fn [v] " + x + ")) [:a :b])"
		case "update-in3-cb":
			return "(get-in (update-in {:a {:b {:c 1}}} [:a :b :c] (fn [v] " + x + ")) [:a :b :c])"
		case "map-cb":
			return "(first (map (fn [v] " + x + ") [1]))"
		case "swap-cb":
			return "(swap! (atom 0) (fn [v] " + x + "))"
		case "reduce-cb":
			return "(reduce (fn [acc v] " + x + ") 0 [1])"
		case "defmacro-value":
			// x is evaluated as part of the value expression of a macro definition
			return "(let [r9 (atom nil)] (do (defmacro mz9 (do (reset! r9 " + x + ") (fn [] nil))) (deref r9)))"
		}
	case "try":
		cs := n.CatchSym
		if cs == "" {
			cs = "e"
		}
		if n.ViaMacro {
			// the same form, but assembled by a macro: (m-try* catch-symbol body handler finally)
			b, h, f := "(do "+renderAll(n.Kids)+")", "(do "+renderAll(n.Catch)+")", "(do "+renderAll(n.Fin)+")"
			switch {
			case n.HasC && n.HasF:
				return "(m-try-cf " + cs + " " + b + " " + h + " " + f + ")"
			case n.HasC:
				return "(m-try-c " + cs + " " + b + " " + h + ")"
			case n.HasF:
				return "(m-try-f " + b + " " + f + ")"
			}
			return "(m-try " + b + ")"
		}
		s := "(try"
		if len(n.Kids) > 0 {
			s += " " + renderAll(n.Kids)
		}
		if n.HasC {
			s += " (catch " + cs + " " + renderAll(n.Catch) + ")"
		}
		if n.HasF {
			s += " (finally " + renderAll(n.Fin) + ")"
		}
		return s + ")"
	}
	return "nil"
}

// ---- fault plans ----

var c03Faults = []string{"ok", "err", "err-wrapped", "panic-err", "panic-val", "throw-val", "budget-timeout"}

// errBudget is what a probe returns when it has waited until the context it was handed ended (the
// share of the deadline that the enclosing try body got): a timeout raised inside a try body.
var errBudget = errors.New("timeout: probe waited until its context ended")

type c03Plan map[int]string // site -> fault kind

var c03Sentinels [128]error

func init() {
	for i := range c03Sentinels {
		c03Sentinels[i] = errors.New("sentinel-" + strconv.Itoa(i))
	}
}

type c03Rt struct {
	plan       c03Plan
	fired      map[string]int
	rawPanicOK map[int]bool       // sites of raw builtins whose Go panic an enclosing try body recovers
	bodyOnly   map[int]bool       // sites where a budget timeout may be injected
	hostCancel context.CancelFunc // C18 only: the fault "host-cancel" ends the context of the whole evaluation
}

// effective maps the planned fault of a site to what is injected there: a raw types.Func has no panic
// recovery of its own, so its panics are injected only where an enclosing try body recovers them
// (then malRecover turns the panic into the error), and never with a non-error value.
func effectiveFault(f string, raw, rawPanicOK bool) string {
	if f == "" {
		return "ok"
	}
	if f == "budget-timeout-ineligible" {
		return "err"
	}
	if raw && f == "panic-val" {
		return "err"
	}
	if raw && f == "panic-err" && !rawPanicOK {
		return "err"
	}
	return f
}

func (rt *c03Rt) probe(ctx context.Context, site int, raw bool) (types.MalType, error) {
	pf := rt.plan[site]
	if pf == "host-cancel" {
		// the embedding program cancels the whole evaluation while this builtin runs; the builtin reports it
		pf = "err"
		if rt.hostCancel != nil {
			rt.fired["host-cancel"]++
			rt.hostCancel()
			return nil, errBudget
		}
	}
	if pf == "budget-timeout" && !rt.bodyOnly[site] {
		pf = "budget-timeout-ineligible"
	}
	f := effectiveFault(pf, raw, rt.rawPanicOK[site])
	if f == "budget-timeout" {
		// wait (on the fake clock) until the context handed to this builtin has ended
		rt.fired[f]++
		<-ctx.Done()
		return nil, errBudget
	}
	if raw && f == "panic-err" {
		rt.fired["raw-panic-err"]++
	}
	rt.fired[f]++
	switch f {
	case "err":
		return nil, c03Sentinels[site]
	case "err-wrapped":
		return nil, fmt.Errorf("probe context: %w", c03Sentinels[site])
	case "panic-err":
		panic(c03Sentinels[site])
	case "panic-val":
		panic("pv" + strconv.Itoa(site))
	case "throw-val":
		// what the throw builtin does for a lisp value, from Go
		return nil, throwLisp(types.List{Val: []types.MalType{types.Symbol{Val: "+"}, site, 1}})
	}
	return site, nil
}

// ---- reference model ----

type m3 struct {
	plan   c03Plan
	trace  []string
	scope  []string // bindings of e, innermost last
	uscope []string // bindings of _, innermost last
}

func (m *m3) lookup(name string) string {
	if name == "_" {
		return m.uscope[len(m.uscope)-1]
	}
	return m.scope[len(m.scope)-1]
}

func (m *m3) failure(f string, site int) (string, bool, string) {
	switch f {
	case "err", "err-wrapped", "panic-err":
		return "", true, sentinelStr(site)
	case "panic-val":
		return "", true, `"pv` + strconv.Itoa(site) + `"`
	case "throw-val":
		return "", true, "(+ " + strconv.Itoa(site) + " 1)"
	}
	return strconv.Itoa(site), false, ""
}

func sentinelStr(site int) string { return "#sentinel<" + strconv.Itoa(site) + ">" }

// eval returns (value, thrown?, thrown object)
func (m *m3) eval(n *n3) (string, bool, string) {
	switch n.Kind {
	case "const":
		return n.Val, false, ""
	case "trace":
		m.trace = append(m.trace, n.Src)
		return n.Src, false, ""
	case "probe":
		pf := m.plan[n.Site]
		if pf == "budget-timeout" {
			if n.BodyOnly {
				return "", true, "#budget-timeout"
			}
			pf = "budget-timeout-ineligible"
		}
		v, th, o := m.failure(effectiveFault(pf, n.Raw, n.RawPanicOK), n.Site)
		if !th && n.ErrOnly {
			v = "nil"
		}
		return v, th, o
	case "mprobe":
		pf := m.plan[n.Site]
		if pf == "budget-timeout" {
			pf = "budget-timeout-ineligible"
		}
		return m.failure(effectiveFault(pf, false, false), n.Site)
	case "mthrow":
		return "", true, n.Val
	case "cclosure":
		return n.Kids[0].Val, false, ""
	case "tsym":
		tag := ":e"
		if n.symbol() == "_" {
			tag = ":u"
		}
		v := "(" + tag + " " + m.lookup(n.symbol()) + ")"
		m.trace = append(m.trace, v)
		return v, false, ""
	case "sym":
		return m.lookup(n.symbol()), false, ""
	case "throw":
		v, th, o := m.eval(n.Kids[0])
		if th {
			return "", true, o
		}
		return "", true, v
	case "do":
		return m.seq(n.Kids)
	case "wrap":
		v, th, o := m.eval(n.Kids[0])
		if th && n.Wrap == "visit" {
			// the Go builtin hands on an error of its own that wraps the callback's
			return "", true, "#visit<" + o + ">"
		}
		return v, th, o
	case "let":
		v, th, o := m.eval(n.Kids[0])
		if th {
			return "", true, o
		}
		m.scope = append(m.scope, v)
		defer func() { m.scope = m.scope[:len(m.scope)-1] }()
		return m.eval(n.Kids[1])
	case "try":
		v, th, o := m.seq(n.Kids)
		if th && n.HasC {
			if n.CatchSym == "_" {
				m.uscope = append(m.uscope, o)
				v, th, o = m.seq(n.Catch)
				m.uscope = m.uscope[:len(m.uscope)-1]
			} else {
				m.scope = append(m.scope, o)
				v, th, o = m.seq(n.Catch)
				m.scope = m.scope[:len(m.scope)-1]
			}
		}
		if n.HasF {
			// a finally body that fails stops there; its failure changes neither the result nor the error
			m.seq(n.Fin)
		}
		return v, th, o
	}
	return "nil", false, ""
}

func (m *m3) seq(ns []*n3) (string, bool, string) {
	v := "nil"
	for _, k := range ns {
		var th bool
		var o string
		v, th, o = m.eval(k)
		if th {
			return "", true, o
		}
	}
	return v, false, ""
}

// ---- canonical forms that know the sentinels ----

// canon03 knows the sentinels. The message string "sentinel-N" is read as the sentinel too: a panic of a
// raw builtin recovered by try reaches the handler as its message (mal.go chooses ErrorValue or the
// message string); the statement does not promise more for raw builtins, so this is deliberately
// not distinguished.
func canon03(v types.MalType) string {
	r := canonWith(v, err03)
	if strings.Contains(r, `"sentinel-`) {
		r = sentinelMsgRE.ReplaceAllString(r, "#sentinel<$1>")
	}
	return r
}

var sentinelMsgRE = regexp.MustCompile(`"sentinel-(\d+)"`)

func err03(err error) string {
	var ve *visitErr
	if errors.As(err, &ve) {
		return "#visit<" + thrown03(ve.inner) + ">"
	}
	if errors.Is(err, errBudget) {
		return "#budget-timeout"
	}
	for i, s := range c03Sentinels {
		if errors.Is(err, s) {
			return sentinelStr(i)
		}
	}
	if ev, ok := err.(interface{ ErrorValue() types.MalType }); ok {
		return "#error<" + canon03(ev.ErrorValue()) + ">"
	}
	return "#goerr<" + err.Error() + ">"
}

func thrown03(err error) string {
	if ev, ok := err.(interface{ ErrorValue() types.MalType }); ok {
		if _, isErr := ev.ErrorValue().(error); !isErr {
			return canon03(ev.ErrorValue())
		}
	}
	return canon03(err)
}

const c03Setup = `(do
  (def e :outer-e)
  (defmacro m-id (fn [x] x))
  (defmacro m-probe (fn [i] (do (probe! i) i)))
  (defmacro m-throw (fn [x] (throw x)))
  (def _ :outer-underscore)
  (defmacro m-try (fn [b] (list 'try b)))
  (defmacro m-try-c (fn [s b h] (list 'try b (list 'catch s h))))
  (defmacro m-try-f (fn [b f] (list 'try b (list 'finally f))))
  (defmacro m-try-cf (fn [s b h f] (list 'try b (list 'catch s h) (list 'finally f))))
  (def call1 (fn [f] (f)))
  (def call3 (fn [f] (call1 (fn [] (call1 f)))))
  nil)`

// c03Soak: one evaluation that recovers ten thousand panics of a raw builtin, each inside a try body, and then one
// more: what the last handler receives must be what the first one would have received (nothing may be left
// behind by a recovered panic).
func c03Soak(tp *Tape, out *RunOut) *RunOut {
	out.Stats["programs:soak-of-recovered-panics"]++
	mk := func() types.EnvType {
		e := NewEnv()
		e.Set(types.Symbol{Val: "raw-panic!"}, types.Func{Fn: func(ctx context.Context, a []types.MalType) (types.MalType, error) {
			panic(c03Sentinels[77])
		}})
		e.Set(types.Symbol{Val: "raw-fail!"}, types.Func{Fn: func(ctx context.Context, a []types.MalType) (types.MalType, error) {
			return nil, c03Sentinels[78]
		}})
		return e
	}
	run := func(src string) (res string) {
		// a panic that leaves EVAL is an outcome too (and never the expected one)
		defer func() {
			if r := recover(); r != nil {
				simhook.Install(nil)
				res = "PANIC " + normPanic(fmt.Sprint(r))
			}
		}()
		ctx, cancel := context.WithTimeout(context.Background(), time.Hour)
		defer cancel()
		spy := &stepSpy{budget: 1500000, cancel: cancel}
		simhook.Install(spy)
		v, err := lisp.EVAL(ctx, mustRead(src), mk())
		simhook.Install(nil)
		if spy.runaway {
			return "DOES-NOT-TERMINATE"
		}
		if err != nil {
			return "THROWN " + thrown03(err)
		}
		return canon03(v)
	}
	kind := []string{"(raw-panic!)", "(raw-fail!)", "(throw 7)", "(defmacro bad-m 5)"}[tp.Draw(LaneWork, 4)]
	n := 10050 + tp.Draw(LaneWork, 200)
	last := "(list (try " + kind + " (catch e e)) (try (raw-panic!) (catch e e)) (try (+ 1 2) (catch e e)))"
	want := run(last)
	src := "(do (def soak (fn [n] (if (> n 0) (do (try " + kind + " (catch e nil)) (soak (- n 1))) :done))) (soak " + strconv.Itoa(n) + ") " + last + ")"
	got := run(src)
	if got != want {
		out.Violations = append(out.Violations, Violation{"C03.result", "changed-after-many-recovered-failures", "after " + strconv.Itoa(n) + " failures of " + kind + " caught by try forms, the same try forms give\n    " + got + "\n  instead of\n    " + want + "\n  program: " + src})
	}
	out.Nontrivial = true
	hsh := fnv(1469598103934665603, src)
	out.ILHash, out.EvHash, out.Tasks = hsh, hsh, 1
	return out
}

func (c03) Run(tp *Tape, opt RunOpt) *RunOut {
	out := &RunOut{prop: "C03", Stats: map[string]int64{}}
	if tp.Chance(LaneWork, 1, 400) {
		return c03Soak(tp, out)
	}
	g := &c03Gen{tp: tp}
	root := g.try(0, false)
	// scope probe after the form: the catch variable must not be visible there
	src := "(let [r " + root.render() + "] (list r e))"
	ast := mustRead(src)

	s := NewSim(&Tape{Replay: true}, SimCfg{StarveID: -1})
	h := &Harness{S: s, Canon: canon03}
	e := NewEnv()
	h.Install(e)
	rt := &c03Rt{fired: map[string]int{}, rawPanicOK: rawPanicSites(root, false), bodyOnly: rawPanicSites(root, true)}
	call.CallOverrideFN(e, "probe!", func(ctx context.Context, i int) (types.MalType, error) { return rt.probe(ctx, i, false) })
	e.Set(types.Symbol{Val: "probe-raw!"}, types.Func{Fn: func(ctx context.Context, a []types.MalType) (types.MalType, error) {
		return rt.probe(ctx, a[0].(int), true)
	}})
	call.CallOverrideFN(e, "probe-e!", func(ctx context.Context, i int) error { _, err := rt.probe(ctx, i, false); return err })
	c03InstallExtras(e)
	if _, err := lisp.EVAL(context.Background(), mustRead(c03Setup), e); err != nil {
		panic("c03 setup: " + err.Error())
	}

	// the caller's deadline is a knob of the run: an hour, or one of the far-away instants embedders use for
	// "practically never" (a try form computes a share of what is left of it)
	horizon := []time.Duration{time.Hour, time.Hour, 40 * 365 * 24 * time.Hour, 120 * 365 * 24 * time.Hour, 250 * 365 * 24 * time.Hour}[tp.Draw(LaneFault, 5)]
	if y := os.Getenv("LISPSIM_C03_HORIZON_Y"); y != "" {
		n, _ := strconv.Atoi(y)
		horizon = time.Duration(n) * 365 * 24 * time.Hour
	}
	far := horizon > time.Hour
	if far {
		// (no budget-timeout faults in these runs: each would move the fake clock forward by decades, all plans of
		// a run share one clock, and the clock of the bubble cannot pass the year 2262)
		out.Stats["knob:deadline-decades-away"]++
	}
	// ---- the plans: no fault, every single fault, drawn multi-fault plans ----
	plans := []c03Plan{{}}
	for site := 1; site <= g.sites; site++ {
		for _, f := range c03Faults[1:] {
			if far && f == "budget-timeout" {
				continue
			}
			plans = append(plans, c03Plan{site: f})
		}
	}
	nMulti := 0
	if g.sites >= 2 {
		nMulti = 2
		if opt.Tier == "thorough" {
			nMulti = 12
		}
	}
	for i := 0; i < nMulti; i++ {
		p := c03Plan{}
		for site := 1; site <= g.sites; site++ {
			if tp.Chance(LaneFault, 1, 2) {
				p[site] = c03Faults[1+tp.Draw(LaneFault, len(c03Faults)-1)]
				if far && p[site] == "budget-timeout" {
					p[site] = "err"
				}
			}
		}
		plans = append(plans, p)
	}
	firstBad := ""
	for _, plan := range plans {
		rt.plan = plan
		s.Events = s.Events[:0]
		var got string
		var gotTrace []string
		panicked := ""
		runaway := false
		func() {
			defer func() {
				if r := recover(); r != nil {
					panicked = panicString(r)
				}
			}()
			// every plan runs under a deadline of one simulated hour: nothing consumes simulated time
			// except a budget-timeout fault, which waits for the end of the context it was handed
			ctx, cancel := context.WithTimeout(context.Background(), horizon)
			spy := &stepSpy{budget: 300000, cancel: cancel}
			simhook.Install(spy)
			res, err := lisp.EVAL(ctx, ast, e)
			simhook.Install(nil)
			cancel()
			if spy.runaway {
				runaway = true
			}
			if err != nil {
				got = "THROWN " + thrown03(err)
			} else {
				got = canon03(res)
			}
		}()
		for _, ev := range s.Events {
			if ev.Kind == "trace" {
				gotTrace = append(gotTrace, ev.A)
			}
		}
		m := &m3{plan: plan, scope: []string{":outer-e"}, uscope: []string{":outer-underscore"}}
		v, th, o := m.eval(root)
		want := "(" + v + " :outer-e)"
		if th {
			want = "THROWN " + o
		}
		out.Stats["plans_executed"]++
		if len(plan) > 0 {
			out.Stats["plans_with_fault"]++
		}
		if runaway {
			out.Violations = append(out.Violations, Violation{"C03.result", "does-not-terminate", "EVAL was still running after 300000 evaluation steps; the try semantics of the statement give " + want + "\n  program: " + src + "\n  fault plan: " + planStr(plan)})
			if firstBad == "" {
				firstBad = planStr(plan)
			}
			continue
		}
		if panicked != "" {
			out.Violations = append(out.Violations, Violation{"C03.panic", normPanic(panicked), "EVAL panicked: " + panicked + "\n  program: " + src + "\n  fault plan: " + planStr(plan)})
			if firstBad == "" {
				firstBad = planStr(plan)
			}
			continue
		}
		if got != want {
			sig := c03Sig(root, got, want, th)
			out.Violations = append(out.Violations, Violation{"C03.result", sig, "EVAL gave\n    " + got + "\n  the try semantics of the statement give\n    " + want + "\n  program: " + src + "\n  fault plan: " + planStr(plan)})
			if firstBad == "" {
				firstBad = planStr(plan)
			}
		}
		if strings.Join(gotTrace, " ") != strings.Join(m.trace, " ") {
			sig := "trace-differs"
			gj, wj := strings.Join(gotTrace, " "), strings.Join(m.trace, " ")
			switch {
			case strings.Count(gj, ":evaluated-twice")+strings.Count(gj, ":again") > strings.Count(wj, ":evaluated-twice")+strings.Count(wj, ":again"):
				sig = "a-value-was-evaluated-again"
			case countPrefix(gotTrace, ":fin") > countPrefix(m.trace, ":fin"):
				sig = "finally-ran-more-than-once"
			case countPrefix(gotTrace, ":fin") < countPrefix(m.trace, ":fin"):
				sig = "finally-did-not-run"
			case countPrefix(gotTrace, ":h") != countPrefix(m.trace, ":h"):
				sig = "handler-runs-differ"
			}
			out.Violations = append(out.Violations, Violation{"C03.effects", sig, "EVAL traced\n    " + gj + "\n  the try semantics of the statement give\n    " + wj + "\n  program: " + src + "\n  fault plan: " + planStr(plan)})
			if firstBad == "" {
				firstBad = planStr(plan)
			}
		}
	}
	for k, v := range rt.fired {
		out.Stats["fault:"+k] += int64(v)
	}
	out.Stats["probe_sites"] += int64(g.sites)
	// keep one violation per clause per run (the first plan that shows it)
	out.Violations = firstPerClause(out.Violations)
	out.Nontrivial = g.sites > 0 && rt.fired["ok"] < sumInts(rt.fired)
	hsh := fnv(1469598103934665603, src)
	out.ILHash = hsh
	out.EvHash = hsh
	out.Tasks = 1
	if opt.Full {
		out.Sample = map[string]interface{}{"program": src, "probe_sites": g.sites, "plans": len(plans), "first_failing_plan": firstBad}
	}
	return out
}

func sumInts(m map[string]int) int {
	t := 0
	for _, v := range m {
		t += v
	}
	return t
}

func countPrefix(xs []string, p string) int {
	n := 0
	for _, x := range xs {
		if strings.HasPrefix(x, p) {
			n++
		}
	}
	return n
}

func firstPerClause(vs []Violation) []Violation {
	seen := map[string]bool{}
	var out []Violation
	for _, v := range vs {
		k := v.Clause + "|" + v.Sig
		if !seen[k] {
			seen[k] = true
			out = append(out, v)
		}
	}
	return out
}

func planStr(p c03Plan) string {
	if len(p) == 0 {
		return "(no fault)"
	}
	var parts []string
	for site := 1; site < 128; site++ {
		if f, ok := p[site]; ok {
			parts = append(parts, "probe "+strconv.Itoa(site)+": "+f)
		}
	}
	return strings.Join(parts, ", ")
}

// c03Sig classifies a result mismatch by what the statement's sentence is about.
func c03Sig(root *n3, got, want string, wantThrown bool) string {
	gotThrown := strings.HasPrefix(got, "THROWN ")
	switch {
	case wantThrown && !gotThrown:
		return "error-swallowed"
	case !wantThrown && gotThrown:
		return "unexpected-error"
	case wantThrown && gotThrown:
		return "thrown-object-changed"
	}
	if strings.HasSuffix(want, " :outer-e)") && !strings.HasSuffix(got, " :outer-e)") {
		return "catch-variable-visible-after-the-form"
	}
	return "value-differs"
}

func throwLisp(v types.MalType) error { return lisperror.NewLispError(v, nil) }

// rawPanicSites collects the probe sites at which a raw builtin's panic is recovered by an enclosing try body.
func rawPanicSites(n *n3, bodyOnly bool) map[int]bool {
	m := map[int]bool{}
	var walk func(x *n3)
	walk = func(x *n3) {
		if x == nil {
			return
		}
		if x.Kind == "probe" && ((bodyOnly && x.BodyOnly) || (!bodyOnly && x.RawPanicOK)) {
			m[x.Site] = true
		}
		for _, k := range x.Kids {
			walk(k)
		}
		for _, k := range x.Catch {
			walk(k)
		}
		for _, k := range x.Fin {
			walk(k)
		}
	}
	walk(n)
	return m
}
